#!/usr/bin/env python3
import json,sys,glob
import jsonschema
ms=json.load(open('/root/.vp/MANIFEST.schema.json')); es=json.load(open('/root/.vp/EVIDENCE.schema.json'))
m=json.load(open('/verif/MANIFEST.json'))
jsonschema.validate(m,ms)
print("MANIFEST ok: %d checks, %d n/a"%(len(m['checks']),len(m.get('not_applicable',[]))))
for f in sorted(glob.glob('/verif/evidence/*.json')):
    try:
        jsonschema.validate(json.load(open(f)),es); print(f,'ok')
    except Exception as e:
        print(f,'INVALID',str(e)[:300])
