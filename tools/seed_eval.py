#!/usr/bin/env python3
"""usage: seed_eval.py <seed-dir> <tier> <check-id>...   [env SEED_KEEP=<name> to store it under /verif/seeded/<name>]

Confirms a seeded change to google/badwolf in a scratch worktree of /repo and runs the given checks
against the changed tree (never against /repo itself):

  <seed-dir>/patch.diff      the change (git apply at the repository root)
  <seed-dir>/demo_test.go    demonstration; line 1 '// DEST: <path in repo>', line 2 '// RUN: go test ... ./pkg'

Steps: demo passes on the unchanged tree; patch applies; go build + whole suite pass with it; demo fails with
it; then tools/seedtest.sh <tree> <tier> <ids>.  The scratch worktree is removed afterwards.
Prints a JSON summary line 'SEED-RESULT {...}' at the end.
"""
import json, os, re, shutil, subprocess, sys, tempfile

def sh(cmd, cwd, timeout=1800):
    env = dict(os.environ, GOFLAGS='-mod=mod', GOPROXY='off')
    env.pop('GOSUMDB', None); env.pop('GOTOOLCHAIN', None)
    p = subprocess.run(cmd, shell=True, cwd=cwd, env=env, stdout=subprocess.PIPE, stderr=subprocess.STDOUT, text=True, timeout=timeout)
    return p.returncode, p.stdout

def main():
    sd = os.path.abspath(sys.argv[1]); tier = sys.argv[2]; checks = sys.argv[3:]
    tools = os.path.dirname(os.path.abspath(__file__))
    demo = os.path.join(sd, 'demo_test.go')
    head = open(demo).read().split('\n')[:6]
    dest = run = None
    for l in head:
        m = re.match(r'//\s*DEST:\s*(\S+)', l)
        if m: dest = m.group(1)
        m = re.match(r'//\s*RUN:\s*(go test.*)$', l)
        if m: run = m.group(1).strip()
    if not dest or not run:
        print('cannot parse DEST/RUN header of', demo); sys.exit(2)
    wt = tempfile.mkdtemp(prefix='wt-eval.', dir='/tmp'); os.rmdir(wt)
    res = dict(seed=sd, dest=dest, run=run, tier=tier)
    try:
        rc, out = sh('git -C /repo worktree add --detach %s HEAD' % wt, '/')
        if rc: print(out); sys.exit(9)
        # 1. demo on the unchanged tree
        os.makedirs(os.path.dirname(os.path.join(wt, dest)), exist_ok=True)
        shutil.copy(demo, os.path.join(wt, dest))
        oks = 0
        for _ in range(2):
            rc, out = sh(run, wt); oks += (rc == 0)
        res['demo_unchanged_pass'] = (oks == 2)
        if oks != 2: print('demo on unchanged tree FAILED:\n' + out[-1500:])
        os.remove(os.path.join(wt, dest))
        # 2. with the change
        rc, out = sh('git apply %s' % os.path.join(sd, 'patch.diff'), wt)
        res['patch_applies'] = (rc == 0)
        if rc: print('patch does not apply:', out); raise SystemExit
        rc, out = sh('go build ./... && go vet ./... >/dev/null 2>&1; go test -vet=off -count=1 ./...', wt)
        res['suite_pass_with_change'] = (rc == 0)
        if rc: print('suite FAILS with change:\n' + '\n'.join(l for l in out.split('\n') if not l.startswith('ok') and 'no test files' not in l)[-2500:])
        shutil.copy(demo, os.path.join(wt, dest))
        fails = 0
        for _ in range(2):
            rc, out = sh(run, wt); fails += (rc != 0)
        res['demo_changed_fail'] = (fails == 2)
        res['demo_changed_fail_runs'] = fails
        if fails != 2: print('demo with change did not fail in every run (%d/2)' % fails)
        os.remove(os.path.join(wt, dest))
        # 3. our checks against the changed tree
        det = {}
        for cid in checks:
            rc, out = sh('%s/seedtest.sh %s %s %s' % (tools, wt, tier, cid), '/', timeout=7200)
            print(out.rstrip())
            keys = sorted(set(re.findall(r'key=(\S+)', out)))
            nv = len(re.findall(r'^VIOLATION', out, re.M))
            det[cid] = dict(rc=rc, violations=nv, keys=keys[:8])
        res['checks'] = det
        res['detected_by'] = [c for c in checks if det[c]['violations'] > 0]
    finally:
        sh('git -C /repo worktree remove --force %s' % wt, '/')
        shutil.rmtree(wt, ignore_errors=True)
        sh('git -C /repo worktree prune', '/')
    print('SEED-RESULT ' + json.dumps(res))

main()
