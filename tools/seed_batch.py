#!/usr/bin/env python3
"""usage: seed_batch.py <ID> <n> <tier> <check>...  — reads the demo header of /tmp/wt-out/<ID>/<n>, runs tools/seed_eval.sh"""
import re,sys,subprocess,glob,os
pid,n,tier=sys.argv[1:4]; checks=sys.argv[4:]
sd='/tmp/wt-out/%s/%s'%(pid,n)
demos=sorted(glob.glob(sd+'/demo*'))
demo=demos[0]
src=demo if os.path.isfile(demo) else glob.glob(demo+'/*.go')[0]
head=open(src).read()[:3000]
m=re.search(r'/tmp/wt/%s/(\S+?\.go)'%pid, head) or re.search(r'[Cc]opy[^\n]*?\s((?:bql|storage|triple|io|tools)/\S+?\.go)', head)
dest=m.group(1) if m else None
r=re.search(r"go test[^\n]*?(-run\s+'?[^'\s]+'?)\s+(\./\S+)", head.replace('\\\n',' '))
race='-race ' if re.search(r'go test[^\n]*-race', head) else ''
if not dest or not r:
    print('cannot parse header of',src); print(head[:800]); sys.exit(2)
targs=race+r.group(1).replace("'", "")+' '+r.group(2)
print('seed',pid,n,'demo ->',dest,'|',targs)
sys.exit(subprocess.call(['/verif/tools/seed_eval.sh','/tmp/wt/'+pid,sd,dest,targs,tier]+checks))
