#!/bin/bash
# usage: tools/seed_eval.sh <worktree> <seed-dir> <demo-dest (relative to tree)> <go-test-args> <tier> <check-id>...
# Confirms a seeded change (suite passes, demo fails with it and passes without it) in a scratch
# worktree, then runs the given checks against that tree with the change applied.
TOOLS="$(cd "$(dirname "$0")" && pwd)"; wt=$1; sd=$2; dest=$3; targs=$4; tier=$5; shift 5
export GOFLAGS=-mod=mod GOPROXY=off
cd "$wt" || exit 9
git checkout -q -- . && git clean -fdq
demo=$(ls "$sd"/demo* | head -1)
mkdir -p "$(dirname "$wt/$dest")"
# 1. without the change the demo passes
cp -r "$demo" "$wt/$dest"
if go test -vet=off -count=1 $targs >/tmp/seed_eval.$$ 2>&1; then echo "demo on unchanged tree: PASS (as required)"; else echo "demo on unchanged tree: FAIL (seed rejected)"; tail -5 /tmp/seed_eval.$$; fi
rm -rf "$wt/$dest"
# 2. with the change: suite passes, demo fails
git apply "$sd/patch.diff" || { echo "patch does not apply"; exit 9; }
if go build ./... && go test -vet=off -count=1 ./... >/tmp/seed_eval.$$ 2>&1; then echo "suite with change: PASS (as required)"; else echo "suite with change: FAIL (seed rejected)"; grep -v '^ok\|no test files' /tmp/seed_eval.$$ | head -5; fi
cp -r "$demo" "$wt/$dest"
if go test -vet=off -count=1 $targs >/tmp/seed_eval.$$ 2>&1; then echo "demo with change: PASS (seed rejected)"; else echo "demo with change: FAIL (as required)"; fi
rm -rf "$wt/$dest" /tmp/seed_eval.$$
# 3. our checks against the changed tree
"$TOOLS/seedtest.sh" "$wt" "$tier" "$@"
cd "$wt" && git checkout -q -- . && git clean -fdq
