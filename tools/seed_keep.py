#!/usr/bin/env python3
"""usage: seed_keep.py <seed-dir> <name> [eval-log]   stores a confirmed seeded change as /verif/seeded/<name>/
(patch.diff, demo_test.go, notes.md, meta.json).  meta.json records what the change breaks, what it needs to
manifest (from the author's notes), what was run to confirm it, and which checks reported it."""
import json, os, re, shutil, sys, glob
sd, name = sys.argv[1], sys.argv[2]
logs = sys.argv[3:] or sorted(glob.glob(os.path.join(sd, 'eval*.log')))
root = os.path.join(os.path.dirname(os.path.dirname(os.path.abspath(__file__))), 'seeded', name)
os.makedirs(root, exist_ok=True)
for f in ('patch.diff', 'demo_test.go', 'notes.md'):
    shutil.copy(os.path.join(sd, f), os.path.join(root, f))
meta_p = os.path.join(root, 'meta.json')
meta = json.load(open(meta_p)) if os.path.exists(meta_p) else {}
meta.setdefault('property', name.split('-')[0])
meta['needs_to_manifest'] = meta.get('needs_to_manifest') or open(os.path.join(sd, 'notes.md')).read().strip()[:1500]
runs = meta.setdefault('runs', [])
for lg in logs:
    for l in open(lg):
        if l.startswith('SEED-RESULT '):
            d = json.loads(l[12:])
            meta['confirmed'] = dict(demo_passes_on_unchanged_tree=d.get('demo_unchanged_pass'), patch_applies=d.get('patch_applies'),
                                     suite_passes_with_change=d.get('suite_pass_with_change'), demo_fails_with_change=d.get('demo_changed_fail'),
                                     demo_cmd=d.get('run'), demo_dest=d.get('dest'))
            for cid, c in d.get('checks', {}).items():
                runs.append(dict(check=cid, tier=d.get('tier'), exit=c['rc'], violations=c['violations'], keys=c['keys'], machinery_commit=os.environ.get('VERIF_COMMIT', '')))
det = sorted({r['check'] for r in runs if r['violations'] > 0})
meta['detected_by'] = det
json.dump(meta, open(meta_p, 'w'), indent=1)
print(name, 'detected_by', det)
