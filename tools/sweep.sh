#!/bin/bash
# usage: tools/sweep.sh <tier> <seed>...   runs every registered check and prints one line per run
cd "$(dirname "$0")/.." || exit 9
tier=$1; shift
for seed in "$@"; do
  for id in $(python3 -c "import json;print(' '.join(c['property_id'] for c in json.load(open('MANIFEST.json'))['checks']))"); do
    start=$(date +%s)
    out=$(VERIF_SEED=$seed ./check $id $tier 2>&1); rc=$?
    end=$(date +%s)
    echo "seed=$seed $id rc=$rc $((end-start))s $(echo "$out" | grep -c '^VIOLATION') violations; $(echo "$out" | grep "^$id $tier" | cut -c1-160)"
    echo "$out" | grep '^VIOLATION\|^INCONCLUSIVE' | cut -c1-300
  done
done
