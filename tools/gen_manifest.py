#!/usr/bin/env python3
"""Regenerates /verif/MANIFEST.json from the table below (keeps it valid and in one place)."""
import json, subprocess

HOOK_COMMITS = ["2d93e58", "7eef3a9"]  # filled in as hook commits are made in /repo

CHECKS = {
 "C19": dict(cat="exploration", technique="runtime lockstep differential monitor (memoized vs plain store), deterministic scheduler at build-tag guarded yield hooks enumerating writer/reader interleavings by re-execution, and porcupine-checked stress histories under the race detector",
   text="Sampled lockstep histories (hundreds to thousands) with every kind of lookup option incl. Offset and 1-3 handles; hook-level schedules of one writer and one reader enumerated completely (35 per program), writer + two readers sampled in quick and complete in thorough (11550 per program); race-instrumented stress checked for linearizability. Plus: key confusion (no write, every method x same identifiers in different roles x 26 option values, three shuffled passes, two handles), steered schedules checked with porcupine incl. readers with two reads, a handle race (first handles obtained at the same moment), store-level operations and mid-history handles in lockstep.",
   note="Hooks: memoization.VerifYield at five points outside graphMemoizer.mu (tag verif). Schedules are complete only at the granularity of these hook points.", ref="DESIGN.md §5 C19, Appendix D"),
 "C07": dict(cat="exploration", technique="runtime monitoring of concurrent executions: client-boundary invoke/response histories checked offline with porcupine against a bitmask set model, Go race detector on the same workloads, shared-options snapshots, channel-closed observation, all-blocked/hard watchdog",
   text="Sampled schedules: hundreds (quick) to thousands (thorough) of short histories (6-10 clients x 4-6 operations) on one graph and on the store's graph registry, under GOMAXPROCS 2/4/16 with yield hooks in AddTriples/RemoveTriples; concurrent BQL statements through the planner; a drain+Exist+writer probe; everything repeated under -race. An error-paths phase calls every lookup with rejected and valid option values (direct and memoized) synchronously on a large channel and observes the channel state after return (open / closed / second close).",
   note="Schedules are sampled, not enumerated; porcupine timeouts (30 s) are inconclusive; RemoveTriples is modelled as k single removals sharing the call interval, AddTriples as atomic.", ref="DESIGN.md §5 C07, Appendix C"),
 "C20": dict(cat="fault_enumeration", technique="runtime fault injection through a pure storage.Store/Graph implementation: per statement every observed driver call position x failure mode is executed while monitors watch Execute's return values, completion and surviving goroutines; race detector on the same workload",
   text="Complete over (call position x mode) for each statement of the corpus (28 hand-picked statements covering every driver entry point, + generated ones; ~2 k runs quick, ~30 k thorough), directly and with the memoizer stacked between planner and failing store. Lookup faults include a late-return mode (channel closed, error returned some time later).",
   note="A planned fault that does not fire (call order varies with scheduling / caching) is inconclusive, counted, never a pass; the wrapper is a well-formed driver (closes its channel once, then returns the error).", ref="DESIGN.md §5 C20"),
 "C04": dict(cat="exploration", technique="runtime reference-model monitor over statement sequences: every graph listed before and after each statement and compared with the statement's stated effect (union / difference / per-row template instantiation, structural reification check, untouched graphs unchanged, rejected statements change nothing)",
   text="Sampled: 640 (quick) to 8000 (thorough) sequences of 10-25 statements of all data and graph kinds with duplicates, overlaps, several targets, bulk sizes 1/3/1000, reification and statements rejected before execution. After removing statements the compound-index lookups of every listed triple are compared with the listing.",
   note="CONSTRUCT rows come from the C03 reference evaluator and are cross-checked against the real SELECT (disagreement => inconclusive, counted); explicit blank nodes are excluded (two admissible readings); one known finding (WHERE without bindings).", ref="DESIGN.md §5 C04, Appendix A"),
 "C14": dict(cat="exploration", technique="runtime metamorphic monitor: multisets of canonical rows of variants of one query (renamed bindings, chanSize, GOMAXPROCS, repeated runs, data partitioned over FROM graphs, clause permutations, data supersets, total ORDER BY repeated 20x) must agree; race detector on the parallel variants",
   text="Sampled: ~1 k (quick) to ~10 k (thorough) base queries x 12-35 variants each, over sparse and dense data; a race-instrumented sample of the same workload. The total-order sequence is compared across plans (clause orders, partitioned data, GOMAXPROCS); ~20 read-only statements are executed alone and then all at once (plain and -race); patterns over thousands of rows are executed on 1 and 16 processors.",
   note="No reference model involved; equality of rows is accessor-based canonical equality; the sequence check only applies when every output column holds one kind of value.", ref="DESIGN.md §5 C14"),
 "C13": dict(cat="exploration", technique="runtime metamorphic monitor: rows of the query with HAVING compared with a typed reference filter of the rows the real engine returns without it",
   text="Sampled: 3.8 k (quick) to 48 k (thorough) base-query x expression pairs; expressions of every accepted form up to nesting 4 over operands of every kind, including constants of another kind than the column and aggregate outputs after GROUP BY. Aggregate outputs may be named like their input binding.",
   note="Order comparisons are generated for numbers, times and text only; errors are accepted only for kind-mismatched comparisons; forms the expression builder rejects at parse time are counted, not judged.", ref="DESIGN.md §5 C13"),
 "C12": dict(cat="exploration", technique="runtime metamorphic monitor: the same query with and without ORDER BY / LIMIT run through the real engine; sortedness, permutation, prefix and rejection oracles on the observed row sequences",
   text="Sampled: 2.5 k (quick) to 40 k (thorough) base queries x ORDER BY lists x LIMIT values (valid and invalid) over dense data with negative/fractional numbers and anchors in two zones, incl. plain single-clause queries (limit push-down) and row-dropping clauses. Also combined with HAVING, bindings repeated through aliases, anchors outside the int64-nanosecond range and single-kind numeric columns incl. both ends of the int64 range.",
   note="Columns mixing kinds carry no ordering requirement; the exclusion check is skipped when a key column shows one value under two spellings (counted).", ref="DESIGN.md §5 C12"),
 "C11": dict(cat="exploration", technique="runtime metamorphic monitor: the grouped query's table is compared with a reference grouping of the rows the real engine returns for the same pattern without GROUP BY",
   text="Sampled: 2.5 k (quick) to 32 k (thorough) aggregate queries over dense numeric data: 1-2 grouping bindings or aliases, mixed-kind key columns, count / count(distinct) / sum in any mix and order, empty patterns. The grouped query is repeated with LIMIT n (min(n, groups) unchanged group rows).",
   note="Decoupled from C03: the input of the reference grouping is the engine's own ungrouped result; sums compared exactly for int64, with a relative tolerance for float64.", ref="DESIGN.md §5 C11"),
 "C10": dict(cat="exploration", technique="runtime reference-model monitor (left-outer-join evaluator) plus a reference-free metamorphic monitor (projection on the mandatory bindings == query without its OPTIONAL clauses) on generated statements run through the real pipeline",
   text="Sampled: 2.5 k (quick) to 40 k (thorough) patterns with 1-3 OPTIONAL clauses after 1-2 mandatory ones over random sparse and dense data; sharing 0-2 bindings, fully specified, inapplicable extractions, clauses matching nothing.",
   note="Trusted: Appendix A left-join semantics in bq.Solve; extraction bindings inside OPTIONAL clauses are fresh; cases with more than 1500 reference solutions are skipped and counted.", ref="DESIGN.md §5 C10"),
 "C08": dict(cat="exploration", technique="runtime process monitors around the real statement pipeline: journaling worker processes (crash attribution), recover(), goroutine-leak snapshots, all-blocked/hard watchdog, table-xor-error, race detector on a sample",
   text="Complete for token sequences up to length 2 (quick) / 3 (thorough) rendered to text; sampled generated statements of all eight kinds, their mutations, random bytes/UTF-8/keyword salad, against empty, populated and memoized stores. Plus statements that fail only while rows are processed (aggregates over mixed-kind columns, one ill-kinded template slot, bindings left NULL by OPTIONAL reused everywhere), every token-boundary prefix of generated statements, and several statements in one text.",
   note="Termination is bounded progress (watchdog); leak = goroutine created by badwolf code after the pre-call snapshot that is still alive (blocked) after the call returned.", ref="DESIGN.md §5 C08"),
 "C03": dict(cat="exploration", technique="runtime reference-model monitor: generated SELECT statements run through the real lexer/parser/planner/Execute and compared row by row with a naive nested-loop evaluator of the pattern",
   text="Complete for the one-clause shape space in thorough (sampled to <=1 extraction in quick) and for all two-clause combinations of a reduced shape set in thorough; sampled random 2-4 clause patterns with bounds, several graphs and aliases; held on the statements generated, not on all programs. Random patterns include bounds whose limits are time bindings of earlier clauses; every statement also runs on one long-lived memoizing store per data set; data is loaded through an insert-and-delete history.",
   note="Trusted: the ~250-line reference evaluator (bq.Match/Solve) implementing DESIGN.md Appendix A, canonical cell projection; cases run in worker processes so an engine-goroutine panic is attributed.", ref="DESIGN.md §5 C03, Appendix A"),
 "C18": dict(cat="exploration", technique="runtime differential monitor: real Parser.Parse vs an independent interpreter of the exported grammar table (explicit end of input) on the kinds the real lexer emits; accessor-level meaning fingerprints on reused vs fresh parsers",
   text="Complete for all token sequences up to length 3 (quick) / 4 (thorough, 9.3 M) over the 55 token kinds; sampled grammar-derived sentences and single-token mutations; sampled statement histories on one Parser instance with accepted, truncated-at-every-token and token-replaced earlier statements. Accepted sentences are also followed by tails the lexer cannot read; eight goroutines with their own parsers parse the targets at the same time (plain and -race); targets include lists that repeat a name and generated statements.",
   note="Trusted: the reference recogniser (gram.Recognize) and the fingerprint's coverage of exported accessors; unrealisable kind sequences are skipped.", ref="DESIGN.md §5 C18"),
 "C16": dict(cat="exploration", technique="runtime monitor on the real lexer's token stream (termination watchdog, end-token rule, substring embedding, capacity independence, metamorphic case/whitespace variants, printed-value tokens, goroutine-leak snapshot)",
   text="Complete for all strings up to length 3 (quick) / 4 (thorough) over a 25-character alphabet at four channel capacities; sampled grammar-derived statements, mutations, random UTF-8/invalid bytes and printed values. Shape rules are applied to every case/whitespace variant; printed literals are also lexed with their type name in another letter case.",
   note="Trusted: greedy leftmost embedding decides substring order; whitespace variants only alter whitespace between two token texts; one known finding (printed literal ending in a backslash).", ref="DESIGN.md §5 C16"),
 "C01": dict(cat="exploration", technique="runtime reference-model monitor: a map name->set(canonical triple) driven in lockstep with the real store, every observable compared after every step; small universes enumerated completely",
   text="Complete for three 4-triple universes (every subset by two paths x every single add/remove batch); sampled random histories (hundreds to thousands) over three graph names and a 12-triple universe with duplicates, overlaps, respelled zones and empty batches, observed after every step. A neighbours phase probes ~7 k pairs of triples that differ in one component by a small change (one bit of an int64/float64, adjacent floats, trailing byte of text/blob/id, anchors 2^k ns apart, one rune of a node type/id).",
   note="Trusted: the 30-line model and the canonical projection; three UUID-collision classes are known findings shared with C06.", ref="DESIGN.md §5 C01"),
 "C02": dict(cat="exploration", technique="runtime reference-model monitor: every lookup with every choice of fixed components after every step of random histories, compared with the filtered model and with a scan of Graph.Triples",
   text="Sampled histories; per step all ten lookups x all argument combinations from stored and never-stored values (both predicate kinds, every anchor, another zone): 0.5 M (quick) to 25 M (thorough) lookup calls compared as multisets.",
   note="Trusted: the property's own definition of matching (id, kind, instant) implemented in ref.Candidates.", ref="DESIGN.md §5 C02"),
 "C09": dict(cat="exploration", technique="runtime reference-model monitor over a grid of lookup options (window, filter op x field, LatestAnchor, MaxElements x Offset); paging checked metamorphically against the real unpaged sequence",
   text="Sampled graphs x all methods x arguments x the option grid (800 window/filter/LatestAnchor combinations, 14 paging pairs; complete grid in thorough): selection compared with the Appendix B pipeline, pages with blocks of the unpaged result, partition law directly, options value unchanged, channel closed on error.",
   note="Trusted: the 60-line reference pipeline (ref.Select); graph content known by construction.", ref="DESIGN.md §5 C09"),
 "C06": dict(cat="exploration", technique="runtime monitor grouping generated adversarial value corpora by UUID and by accessor-based canonical identity; race detector on concurrent recomputation; digests compared across child processes",
   text="Sampled adversarial corpora (thousands of values per kind, all pairs decided by grouping), int64/float64 sweeps over every power of two and exponent plus random bit patterns, 16-goroutine recomputation under -race, 3 extra processes; three root causes are recorded as known findings and attributed by a syntactic class of the colliding pair. Predicate corpus includes id/anchor boundary shifts under three encoding hypotheses and anchors outside the int64-nanosecond range in several zones; every UUID is recomputed in reverse order.",
   note="Trusted: accessors and the canonical projection; 'every process' is observed on 4 processes; byte images are used for attribution of known findings only.", ref="DESIGN.md §5 C06"),
 "C05": dict(cat="exploration", technique="runtime round-trip monitor over generated hostile values and graphs (Parse(String(v)) compared through accessor-based canonical values; WriteGraph->ReadIntoGraph compared as canonical sets)",
   text="Sampled: tens of thousands (quick) to millions (thorough) of generated values inside the documented domain, biased to delimiter-like substrings, extreme numbers, zones and precisions, plus random graphs; held on what was generated, not on all inputs.",
   note="Trusted: accessors of node/predicate/literal/triple, the harness's canonical projection; NaN and CR/LF inside graph files are outside the claim.", ref="DESIGN.md §5 C05"),
 "C15": dict(cat="exploration", technique="runtime monitor (recover, well-formedness and re-parse oracle) over exhaustive short strings, templates, mutations and random strings fed to every text parser and the line reader",
   text="Complete for all strings up to length 4 (quick) / 6 (thorough) over a 15-character delimiter alphabet and for the template grid; sampled for mutations and random strings; the reader is checked against files with a malformed line at a random position.",
   note="Trusted: recover() sees every panic because the parsers start no goroutines; canonical projection for equality.", ref="DESIGN.md §5 C15"),
 "C17": dict(cat="exploration", technique="runtime invariant check of the live grammar tables + executed witness statements observed through ProcessStart probes in the real parser",
   text="The grammar is a finite table: every rule and every pair of alternatives of grammar.BQL()/SemanticBQL() is inspected at run time, and for each of the alternatives a concrete statement is parsed by the real parser while probes record which alternative fired; complete for the table, sampled for contexts. An alternative whose shortest witness is not lexically realisable is derived under every parent and grandparent occurrence of its rule before a random search.",
   note="Trusted: Element.Symbol()/Token() accessors, the harness's reference predictive recogniser (60 lines), the real lexer for rendering witnesses.", ref="DESIGN.md §5 C17"),
}

NA_REASON = "check not built yet (build phase in progress); will be claimed once its monitor is validated"

def main():
    checks=[]
    for pid in sorted(CHECKS):
        c=CHECKS[pid]
        checks.append({
          "property_id":pid,
          "quick_cmd":"./check %s quick"%pid,
          "thorough_cmd":"./check %s thorough"%pid,
          "evidence_file":"/verif/evidence/%s.json"%pid,
          "replay_cmd_template":"./check %s replay {path}"%pid,
          "engine":"bwcheck",
          "level_claimed":{"category":c["cat"],"text":c["text"],"design_ref":c["ref"]},
          "level_note":c["note"],
          "technique":c["technique"],
        })
    na=[{"property_id":"C%02d"%i,"reason":NA_REASON} for i in range(1,21) if "C%02d"%i not in CHECKS]
    m={"version":1,
       "setup_cmd":"./check build",
       "hooks":{"guard":"verif","enable":"go build -tags verif (done by ./check on every invocation, against /repo's working tree via a replace directive)",
                "baseline_off_cmd":"cd /repo && go test -vet=off -count=1 ./...",
                "source_commits":HOOK_COMMITS,"add_only":True},
       "engines":[{"name":"bwcheck","path":"/verif/harness","serves_properties":sorted(CHECKS),
                   "kind_free_text":"Go harness: worker processes run generated cases against the real packages while monitors (reference models, metamorphic comparisons, race detector, porcupine, goroutine-leak and deadlock watchdogs) observe; parent aggregates, attributes known findings, writes evidence and replay files"}],
       "checks":checks,
       "not_applicable":na,
       "notes":"Runtime monitoring only. Verdicts: exit 0 held on what was observed, exit 1 VIOLATION, exit 2 INCONCLUSIVE (coverage floor not met). Known findings live in /verif/KNOWN_FINDINGS.txt."}
    json.dump(m,open('/verif/MANIFEST.json','w'),indent=1)
    print("wrote MANIFEST.json with",len(checks),"checks")
main()
