#!/usr/bin/env python3
"""Prints the table of seeded changes (markdown) from /verif/seeded/*/meta.json."""
import json, glob, os, re
root = os.path.join(os.path.dirname(os.path.dirname(os.path.abspath(__file__))), 'seeded')
rows = []
for d in sorted(glob.glob(root + '/*/')):
    name = os.path.basename(d.rstrip('/'))
    m = json.load(open(d + 'meta.json'))
    patch = open(d + 'patch.diff').read()
    files = sorted(set(re.findall(r'^\+\+\+ b/(\S+)', patch, re.M)))
    funcs = sorted(set(re.findall(r'^@@.*@@ func (?:\([^)]*\) )?(\w+)', patch, re.M)))
    det = m.get('detected_by', [])
    keys = []
    for r in m.get('runs', []):
        if r['violations'] > 0:
            for k in r['keys']:
                if not k.endswith('/*') and k not in keys:
                    keys.append(k)
    first = [r for r in m.get('runs', [])][:1]
    first_det = bool(first and first[0]['violations'] > 0 and first[0]['check'] == m['property'])
    rows.append((name, m['property'], ', '.join(f.replace('storage/', 's/').replace('bql/', 'b/') for f in files), ', '.join(funcs[:2]), ', '.join(det) or '—', '; '.join(k[:70] for k in keys[:2]), 'yes' if first_det else 'no: after an extension, or by another check'))
print('| seed | breaks | changed file | reported by | e.g. violation keys | reported at the first evaluation |')
print('|---|---|---|---|---|---|')
for r in rows:
    print('| %s | %s | %s | %s | %s | %s |' % (r[0], r[1], r[2], r[4], r[5].replace('|', '\\|'), r[6]))
