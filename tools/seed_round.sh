#!/bin/bash
# usage: tools/seed_round.sh <out-root> <tier> <par>   evaluates every <out-root>/Cxx/<n> that has a patch and no eval log yet
root=$1; tier=$2; par=$3
T="$(cd "$(dirname "$0")" && pwd)"
dirs=""
for d in $root/C*/[0-9]; do
  [ -f $d/patch.diff ] && [ -f $d/demo_test.go ] && [ -f $d/notes.md ] && [ ! -f $d/eval.$tier.log ] && dirs="$dirs $d"
done
[ -z "$dirs" ] && { echo "nothing to do"; exit 0; }
echo "evaluating:$dirs"
$T/seed_all.sh $tier $par $dirs
