#!/bin/bash
# Confirms that the harness's own monitors fire: runs the SELFTEST pseudo check
# and looks for every expected violation key. Exit 0 = all monitors fired.
cd "$(dirname "$0")/.." || exit 9
./check build >/dev/null || exit 9
out=$(cd harness && VERIF_ROOT="$PWD/.." ./bin/bwcheck -id SELFTEST -tier quick -seed 1 2>&1)
fail=0
for k in 'key=panic/nil-map' 'key=crash/boom' 'key=crash/' 'key=deadlock/' 'key=selftest-leak/bql/lexer' 'key=harness-race/'; do
  if echo "$out" | grep -q "$k"; then echo "fired: $k"; else echo "MISSING: $k"; fail=1; fi
done
# a busy loop in the harness's own code is not a hang of the code under observation: it must end up
# as an inconclusive case, not as a violation (a real spin inside badwolf is exercised by seeded/C08-r2-1)
if grep -q 'still running harness code at the hard watchdog' evidence/SELFTEST.json 2>/dev/null || echo "$out" | grep -q 'inconclusive=[1-9]'; then echo "fired: slow harness case is inconclusive"; else echo "MISSING: slow harness case"; fail=1; fi
n=$(echo "$out" | grep -c '^VIOLATION')
echo "violations reported: $n (expected 6)"
[ "$n" = 6 ] || fail=1
rm -f evidence/SELFTEST.json
exit $fail
