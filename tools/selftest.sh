#!/bin/bash
# Confirms that the harness's own monitors fire: runs the SELFTEST pseudo check
# and looks for every expected violation key. Exit 0 = all monitors fired.
cd "$(dirname "$0")/.." || exit 9
./check build >/dev/null || exit 9
out=$(cd harness && VERIF_ROOT="$PWD/.." ./bin/bwcheck -id SELFTEST -tier quick -seed 1 2>&1)
rm -f evidence/SELFTEST.json
fail=0
for k in 'key=panic/nil-map' 'key=crash/boom' 'key=crash/' 'key=deadlock/' 'key=hang/' 'key=selftest-leak/bql/lexer' 'key=harness-race/'; do
  if echo "$out" | grep -q "$k"; then echo "fired: $k"; else echo "MISSING: $k"; fail=1; fi
done
n=$(echo "$out" | grep -c '^VIOLATION')
echo "violations reported: $n (expected 7)"
[ "$n" = 7 ] || fail=1
exit $fail
