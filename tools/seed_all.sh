#!/bin/bash
# usage: tools/seed_all.sh <tier> <par> <seed-dir>...   evaluates each seed dir against the check named by its parent directory (C07/1 -> C07)
tier=$1; par=$2; shift 2
T="$(cd "$(dirname "$0")" && pwd)"
printf '%s\n' "$@" | xargs -P "$par" -I{} bash -c 'd={}; id=$(basename $(dirname $d)); id=${id%%-*}; ids=${SEED_IDS:-$id}; '"$T"'/seed_eval.py $d '"$tier"' $ids > $d/eval.'"$tier"'.log 2>&1; grep -h "^SEED-RESULT" $d/eval.'"$tier"'.log'
