#!/bin/bash
# usage: tools/seedtest.sh <repo-tree> <tier> <ID>...
# Runs the given checks against another tree of google/badwolf (e.g. a scratch
# worktree with a seeded change applied) WITHOUT touching /repo: a scratch copy
# of /verif is pointed at that tree through the replace directive of go.mod.
# (The registered commands always build against /repo; this is a development aid.)
tree=$1; tier=$2; shift 2
src="$(cd "$(dirname "$0")/.." && pwd)"
dst=$(mktemp -d /tmp/vseed.XXXXXX)
# When the tag seedtest-pin exists the checks are taken from that commit (so that a long batch of
# evaluations is not disturbed by edits in the working tree); otherwise from the working tree.
if git -C "$src" rev-parse -q --verify refs/tags/seedtest-pin >/dev/null 2>&1; then
  git -C "$src" archive seedtest-pin | tar -x -C "$dst"
  rm -rf "$dst/evidence" "$dst/replay"
else
  rsync -a --exclude harness/bin --exclude harness/scratch --exclude replay --exclude .git --exclude evidence "$src/" "$dst/"
fi
sed -i "s#=> /repo#=> $tree#" "$dst/harness/go.mod"
rc=0
for id in "$@"; do
  out=$(cd "$dst" && ./check "$id" "$tier" 2>&1); r=$?
  echo "== $id rc=$r"
  echo "$out" | grep '^VIOLATION\|^KNOWN\|^INCONCLUSIVE\|BUILD FAILED' | cut -c1-330 | head -${SEEDTEST_LINES:-6}
  echo "$out" | grep "^$id $tier" | cut -c1-200
  [ $r -ne 0 ] && rc=$r
done
rm -rf "$dst"
exit $rc
