// Package gen holds the value, graph and statement generators. All generators
// are pure functions of the *rand.Rand handed to them.
package gen

import (
	"math"
	"math/rand"
	"sort"
	"strings"
	"time"
	"unicode/utf8"

	"github.com/google/badwolf/triple"
	"github.com/google/badwolf/triple/literal"
	"github.com/google/badwolf/triple/node"
	"github.com/google/badwolf/triple/predicate"
)

// Rng returns the PRNG for (seed, stream, index).
func Rng(seed int64, stream string, i int) *rand.Rand {
	h := uint64(1469598103934665603)
	for _, b := range []byte(stream) {
		h = (h ^ uint64(b)) * 1099511628211
	}
	return rand.New(rand.NewSource(seed*1000003 + int64(h%1000000007)*7919 + int64(i)*104729))
}

// Must helpers (the inputs are inside the constructors' domain by construction;
// a failure is a harness bug and panics loudly).
func MustNode(t, id string) *node.Node {
	n, err := node.NewNodeFromStrings(t, id)
	if err != nil {
		panic("gen.MustNode: " + err.Error())
	}
	return n
}

func MustImm(id string) *predicate.Predicate {
	p, err := predicate.NewImmutable(id)
	if err != nil {
		panic("gen.MustImm: " + err.Error())
	}
	return p
}

func MustTemp(id string, t time.Time) *predicate.Predicate {
	p, err := predicate.NewTemporal(id, t)
	if err != nil {
		panic("gen.MustTemp: " + err.Error())
	}
	return p
}

func MustLit(t literal.Type, v interface{}) *literal.Literal {
	l, err := literal.DefaultBuilder().Build(t, v)
	if err != nil {
		panic("gen.MustLit: " + err.Error())
	}
	return l
}

func MustTriple(s *node.Node, p *predicate.Predicate, o *triple.Object) *triple.Triple {
	t, err := triple.New(s, p, o)
	if err != nil {
		panic("gen.MustTriple: " + err.Error())
	}
	return t
}

// ---------------------------------------------------------------------------
// hostile generators inside the documented domain (C05, C06, C15, C16)

var idFragments = []string{
	`"`, `\`, `@[`, `]`, `"@[`, `^^`, `"^^type:`, `^^type:text`, `[`, `,`, `@`, `:`, `_`, `/`, `é`, `日本`, ` x`, "\x01", "\x7f", `'`, `%s`, `%!`, `\"`, `\\`, `\n`, `a`, `b`, `p`, `0`, `immutable`, `type:`, `?x`, `{`, `}`, `;`, `.`, `(`, `)`,
}

func fragString(rng *rand.Rand, n int, forbid string, frags []string) string {
	var sb strings.Builder
	for i := 0; i < n; i++ {
		f := frags[rng.Intn(len(frags))]
		if strings.ContainsAny(f, forbid) {
			continue
		}
		sb.WriteString(f)
	}
	return sb.String()
}

// NodeType: 1-3 path segments without whitespace, '<', '>' and without an
// empty last segment.
func NodeType(rng *rand.Rand) string {
	segs := []string{"u", "t", "organization", "x", "_", "a.b", "é", "0", "t-1", "a:b", `q"`, `p@[`, "]"}
	n := 1 + rng.Intn(3)
	var sb strings.Builder
	for i := 0; i < n; i++ {
		sb.WriteString("/")
		sb.WriteString(segs[rng.Intn(len(segs))])
	}
	return sb.String()
}

// NodeID: any text without '<', '>', tab, CR, LF; interior single spaces are
// allowed (docs/temporal_graph_modeling.md uses "United States of America").
func NodeID(rng *rand.Rand) string {
	for {
		s := fragString(rng, 1+rng.Intn(5), "<>\t\r\n ", idFragments)
		if rng.Intn(4) == 0 && s != "" {
			s = s + " " + fragString(rng, 1+rng.Intn(2), "<>\t\r\n ", idFragments)
		}
		s = strings.TrimSpace(s)
		if s != "" && utf8.ValidString(s) {
			return s
		}
	}
}

// PredID: any non-empty text without whitespace, biased towards delimiters.
func PredID(rng *rand.Rand) string {
	for {
		s := fragString(rng, 1+rng.Intn(5), " \t\r\n ", idFragments)
		if s != "" && utf8.ValidString(s) && !strings.ContainsAny(s, " \t\r\n\v\f\u0085 ") {
			// now and then bytes that are no valid UTF-8 (a Latin-1 byte, a
			// truncated sequence, an encoded surrogate): an ID is any string, and
			// its printed form escapes them
			if rng.Intn(8) == 0 {
				bad := []string{"\xe9", "\xf0\x9f", "\xed\xa0\x80", "\xff"}[rng.Intn(4)]
				k := rng.Intn(len(s) + 1)
				for k < len(s) && !utf8.RuneStart(s[k]) {
					k++
				}
				s = s[:k] + bad + s[k:]
			}
			return s
		}
	}
}

var zones = []int{0, 0, 0, 3600, -3600, 5*3600 + 1800, -12 * 3600, 14 * 3600, 60, -60, 9 * 3600, -(3*3600 + 1800)}

// Anchor: instants 1700-2200 (a few at years 1 / 9999), zones in minute steps,
// 0-9 fractional digits.
func Anchor(rng *rand.Rand) time.Time {
	var sec int64
	switch rng.Intn(20) {
	case 0:
		sec = time.Date(1, 1, 2, 0, 0, 0, 0, time.UTC).Unix() + rng.Int63n(86400*300)
	case 1:
		sec = time.Date(9999, 1, 1, 0, 0, 0, 0, time.UTC).Unix() + rng.Int63n(86400*300)
	default:
		lo := time.Date(1700, 1, 1, 0, 0, 0, 0, time.UTC).Unix()
		hi := time.Date(2200, 1, 1, 0, 0, 0, 0, time.UTC).Unix()
		sec = lo + rng.Int63n(hi-lo)
	}
	nsec := int64(0)
	if d := rng.Intn(10); d > 0 {
		p := int64(1)
		for i := 0; i < 9-d; i++ {
			p *= 10
		}
		nsec = (rng.Int63n(1000000000) / p) * p
	}
	off := zones[rng.Intn(len(zones))]
	if rng.Intn(4) == 0 {
		off = (rng.Intn(26*60) - 12*60) * 60
	}
	loc := time.UTC
	if off != 0 {
		loc = time.FixedZone("", off)
	}
	return time.Unix(sec, nsec).In(loc)
}

// Int64 values incl. the full range and edges ±2^k±1.
func Int64(rng *rand.Rand) int64 {
	switch rng.Intn(4) {
	case 0:
		k := uint(rng.Intn(64))
		v := int64(1) << k
		if k == 63 {
			v = math.MinInt64
		}
		switch rng.Intn(3) {
		case 0:
			v--
		case 1:
			v++
		}
		if rng.Intn(2) == 0 {
			v = -v
		}
		return v
	case 1:
		return []int64{0, 1, -1, math.MaxInt64, math.MinInt64, math.MaxInt64 - 1, math.MinInt64 + 1, 1 << 55, -(1 << 55), 1<<55 - 1}[rng.Intn(10)]
	case 2:
		return int64(rng.Intn(2001) - 1000)
	default:
		return int64(rng.Uint64())
	}
}

// Float64 values (never NaN).
func Float64(rng *rand.Rand) float64 {
	for {
		var f float64
		switch rng.Intn(5) {
		case 0:
			f = []float64{0, math.Copysign(0, -1), math.Inf(1), math.Inf(-1), math.MaxFloat64, -math.MaxFloat64, math.SmallestNonzeroFloat64, -math.SmallestNonzeroFloat64,
				2.2250738585072014e-308, 2.225073858507201e-308, 0.1, 0.3, 1e21, 1e-7, 123456789.123456789, 5e-324, 1.7976931348623157e308, 9007199254740993}[rng.Intn(18)]
		case 1:
			f = float64(rng.Intn(2001)-1000) / 8
		case 2:
			f = rng.NormFloat64() * math.Pow(10, float64(rng.Intn(40)-20))
		default:
			f = math.Float64frombits(rng.Uint64())
		}
		if !math.IsNaN(f) {
			return f
		}
	}
}

var textFragments = []string{
	`"^^type:`, `"@[`, "]\t\"", `"`, `\`, `\"`, `^^`, `type:text`, `"^^type:int64`, " ", "\t", "abc", "b c", "é", "日本", "\x00", "[", "]", "[1 2]", "true", "5", "<", ">", "/u<a>", "%d", "'", "\\n", "{", "}", ";", ".",
}

// Text for literals. If lineSafe, CR and LF are excluded.
func Text(rng *rand.Rand, lineSafe bool) string {
	for {
		s := fragString(rng, rng.Intn(6), "", textFragments)
		if !lineSafe && rng.Intn(10) == 0 {
			s += "\n" + fragString(rng, rng.Intn(3), "", textFragments)
		}
		if utf8.ValidString(s) {
			return s
		}
	}
}

// Blob values incl. empty.
func Blob(rng *rand.Rand) []byte {
	n := rng.Intn(6)
	if rng.Intn(10) == 0 {
		n = 40
	}
	b := make([]byte, n)
	for i := range b {
		b[i] = byte(rng.Intn(256))
	}
	return b
}

// HNode is a hostile node.
func HNode(rng *rand.Rand) *node.Node {
	if rng.Intn(12) == 0 {
		return node.NewBlankNode()
	}
	return MustNode(NodeType(rng), NodeID(rng))
}

// HPred is a hostile predicate.
func HPred(rng *rand.Rand) *predicate.Predicate {
	if rng.Intn(2) == 0 {
		return MustImm(PredID(rng))
	}
	return MustTemp(PredID(rng), Anchor(rng))
}

// HLit is a hostile literal.
func HLit(rng *rand.Rand, lineSafe bool) *literal.Literal {
	switch rng.Intn(5) {
	case 0:
		return MustLit(literal.Bool, rng.Intn(2) == 0)
	case 1:
		return MustLit(literal.Int64, Int64(rng))
	case 2:
		return MustLit(literal.Float64, Float64(rng))
	case 3:
		return MustLit(literal.Text, Text(rng, lineSafe))
	default:
		return MustLit(literal.Blob, Blob(rng))
	}
}

// HObj is a hostile object.
func HObj(rng *rand.Rand, lineSafe bool) *triple.Object {
	switch rng.Intn(4) {
	case 0:
		return triple.NewNodeObject(HNode(rng))
	case 1:
		return triple.NewPredicateObject(HPred(rng))
	default:
		return triple.NewLiteralObject(HLit(rng, lineSafe))
	}
}

// HTriple is a hostile triple.
func HTriple(rng *rand.Rand, lineSafe bool) *triple.Triple {
	return MustTriple(HNode(rng), HPred(rng), HObj(rng, lineSafe))
}

// Interesting reports whether a printed form contains delimiter-like
// substrings, a non-UTC zone, sub-second digits or an extreme number.
func Interesting(printed string) bool {
	inner := printed
	if strings.ContainsAny(inner, `\`) || strings.Count(inner, `"`) > 2 || strings.Count(inner, "@[") > 1 || strings.Count(inner, "^^") > 1 ||
		strings.Count(inner, "]") > 1 || strings.Contains(inner, "+") && strings.Contains(inner, "@[") || strings.Contains(inner, "e+") || strings.Contains(inner, "e-") ||
		strings.Contains(inner, "Inf") || len(inner) > 40 {
		return true
	}
	if i := strings.Index(inner, "@["); i >= 0 {
		a := inner[i:]
		if strings.Contains(a, ".") || (!strings.HasSuffix(a, "Z]") && a != "@[]") {
			return true
		}
	}
	return false
}

func sortStrings(xs []string) { sort.Strings(xs) }

// MustLitI / MustLitF / MustLitT build int64 / float64 / text literals.
func MustLitI(v int64) *literal.Literal   { return MustLit(literal.Int64, v) }
func MustLitF(v float64) *literal.Literal { return MustLit(literal.Float64, v) }
func MustLitT(v string) *literal.Literal  { return MustLit(literal.Text, v) }
