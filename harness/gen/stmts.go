package gen

import (
	"fmt"
	"math/rand"
	"strings"
	"time"

	"bwverif/bq"

	"github.com/google/badwolf/triple"
)

// LimitTexts are LIMIT operands: valid, zero, negative, huge and ill-typed.
var LimitTexts = []string{`"0"^^type:int64`, `"1"^^type:int64`, `"2"^^type:int64`, `"3"^^type:int64`, `"100"^^type:int64`, `"-1"^^type:int64`, `"-2"^^type:int64`, `"9223372036854775807"^^type:int64`,
	`"2.5"^^type:float64`, `"2"^^type:text`, `"true"^^type:bool`, `"[2]"^^type:blob`, `"-9223372036854775808"^^type:int64`}

// AllGraphNames are the vocabulary graph names plus one that is never created.
var AllGraphNames = []string{"?g1", "?g2", "?g3", "?g4"}

func someGraphs(rng *rand.Rand, n int) []string {
	var gs []string
	for len(gs) < n {
		g := AllGraphNames[rng.Intn(len(AllGraphNames))]
		dup := false
		for _, x := range gs {
			if x == g {
				dup = true
			}
		}
		if !dup || rng.Intn(10) == 0 {
			gs = append(gs, g)
		}
	}
	return gs
}

// DataStmt draws an INSERT or DELETE with duplicate / overlapping triples.
func DataStmt(rng *rand.Rand, kind string, pool []*triple.Triple) *bq.Stmt {
	n := 1 + rng.Intn(4)
	var ts []*triple.Triple
	for i := 0; i < n; i++ {
		var t *triple.Triple
		if len(pool) > 0 && rng.Intn(3) != 0 {
			t = pool[rng.Intn(len(pool))]
		} else {
			t = VTriple(rng, true)
		}
		ts = append(ts, t)
		if rng.Intn(6) == 0 {
			ts = append(ts, Respell(t))
		}
	}
	return &bq.Stmt{Kind: kind, Graphs: someGraphs(rng, 1+rng.Intn(2)), Triples: ts}
}

// TemplateFor builds construct templates over the bindings of a pattern.
// sorts maps every binding to "node", "pred", "time", "any" (object values),
// "str".
func bindingKinds(cs []bq.Clause) map[string]string {
	m := map[string]string{}
	set := func(b, k string) {
		if b == "" {
			return
		}
		if old, ok := m[b]; ok && old != k {
			m[b] = "mixed"
			return
		}
		m[b] = k
	}
	for _, c := range cs {
		if c.S.Kind == bq.KBinding {
			set(c.S.Binding, "node")
		}
		set(c.SAs, "node")
		if c.P.Kind == bq.KBinding {
			set(c.P.Binding, "pred")
		}
		set(c.PAs, "pred")
		if c.P.Kind == bq.KPBind {
			set(c.P.TBind, "time")
		}
		if c.O.Kind == bq.KPBind {
			set(c.O.TBind, "time")
		}
		set(c.PAt, "time")
		set(c.OAt, "time")
		if c.O.Kind == bq.KBinding {
			set(c.O.Binding, "any")
		}
		set(c.OAs, "any")
		set(c.SType, "str")
		set(c.SID, "str")
		set(c.PID, "str")
		set(c.OType, "str")
		set(c.OID, "str")
	}
	return m
}

func bindingsOf(kinds map[string]string, want ...string) []string {
	var res []string
	for b, k := range kinds {
		for _, w := range want {
			if k == w {
				res = append(res, b)
			}
		}
	}
	sortStrings(res)
	return res
}

// Templates draws 1-2 template clauses from constants, bindings, anchor
// bindings, blank nodes and ';' reification. wellTyped keeps bindings in
// positions their values fit.
func Templates(rng *rand.Rand, where []bq.Clause, construct, wellTyped bool) []bq.Template {
	kinds := bindingKinds(where)
	nodes := bindingsOf(kinds, "node")
	preds := bindingsOf(kinds, "pred")
	times := bindingsOf(kinds, "time")
	anys := bindingsOf(kinds, "any", "node", "pred")
	all := bindingsOf(kinds, "node", "pred", "time", "any", "str", "mixed")
	pickS := func() bq.Term {
		switch {
		case len(nodes) > 0 && rng.Intn(3) != 0:
			return bq.B(nodes[rng.Intn(len(nodes))])
		case !wellTyped && len(all) > 0 && rng.Intn(3) == 0:
			return bq.B(all[rng.Intn(len(all))])
		case construct && rng.Intn(6) == 0:
			return bq.Blank([]string{"v", "w1"}[rng.Intn(2)])
		}
		return bq.N(VNodes[rng.Intn(len(VNodes))])
	}
	pickP := func() bq.Term {
		switch {
		case len(preds) > 0 && rng.Intn(3) == 0:
			return bq.B(preds[rng.Intn(len(preds))])
		case len(times) > 0 && rng.Intn(2) == 0:
			return bq.PB([]string{"c1", "c2"}[rng.Intn(2)], times[rng.Intn(len(times))])
		case !wellTyped && len(all) > 0 && rng.Intn(4) == 0:
			return bq.B(all[rng.Intn(len(all))])
		}
		if rng.Intn(3) == 0 {
			return bq.P(MustTemp([]string{"c1", "c2"}[rng.Intn(2)], Times[rng.Intn(3)]))
		}
		return bq.P(MustImm([]string{"c1", "c2", "p"}[rng.Intn(3)]))
	}
	pickO := func() bq.Term {
		switch {
		case len(anys) > 0 && rng.Intn(2) == 0:
			return bq.B(anys[rng.Intn(len(anys))])
		case len(times) > 0 && rng.Intn(4) == 0:
			return bq.PB("c3", times[rng.Intn(len(times))])
		case !wellTyped && len(all) > 0 && rng.Intn(4) == 0:
			return bq.B(all[rng.Intn(len(all))])
		case construct && rng.Intn(8) == 0:
			return bq.Blank("v")
		}
		os := VObjects()
		o := os[rng.Intn(len(os))]
		if n, err := o.Node(); err == nil {
			return bq.N(n)
		}
		if p, err := o.Predicate(); err == nil {
			return bq.P(p)
		}
		l, _ := o.Literal()
		return bq.L(l)
	}
	var res []bq.Template
	n := 1 + rng.Intn(2)
	for i := 0; i < n; i++ {
		t := bq.Template{S: pickS()}
		pairs := 1
		if construct && rng.Intn(3) == 0 {
			pairs = 2 + rng.Intn(2) // reification
		}
		for k := 0; k < pairs; k++ {
			t.Pairs = append(t.Pairs, bq.Pair{P: pickP(), O: pickO()})
		}
		res = append(res, t)
	}
	return res
}

// ConstructStmt draws a CONSTRUCT / DECONSTRUCT over data.
func ConstructStmt(rng *rand.Rand, kind string, data []*triple.Triple, wellTyped bool) *bq.Stmt {
	shapes := ReducedShapes()
	where := RandomPattern(rng, shapes, data, 1+rng.Intn(2))
	s := &bq.Stmt{Kind: kind, Where: where, In: someGraphs(rng, 1+rng.Intn(2)), Out: someGraphs(rng, 1+rng.Intn(2))}
	s.Templates = Templates(rng, where, kind == "construct", wellTyped)
	return s
}

// ---------------------------------------------------------------------------
// SELECT tails

// HavingExpr draws an expression over the given typed output bindings.
// kinds: binding -> int64 | float64 | text | time | node | pred | bool | blob | mixed.
func HavingExpr(rng *rand.Rand, kinds map[string]string, depth int, mismatch bool) *bq.HExpr {
	if depth > 0 && rng.Intn(3) == 0 {
		switch rng.Intn(4) {
		case 0:
			return &bq.HExpr{Kind: "not", L: HavingExpr(rng, kinds, depth-1, mismatch)}
		case 1:
			// (the expression builder does not accept directly nested parentheses)
			in := HavingExpr(rng, kinds, depth-1, mismatch)
			if in.Kind == "paren" {
				return in
			}
			return &bq.HExpr{Kind: "paren", L: in}
		case 2:
			return &bq.HExpr{Kind: "and", L: HavingExpr(rng, kinds, depth-1, mismatch), R: HavingExpr(rng, kinds, depth-1, mismatch)}
		default:
			return &bq.HExpr{Kind: "or", L: HavingExpr(rng, kinds, depth-1, mismatch), R: HavingExpr(rng, kinds, depth-1, mismatch)}
		}
	}
	var names []string
	for b := range kinds {
		names = append(names, b)
	}
	sortStrings(names)
	b := names[rng.Intn(len(names))]
	k := kinds[b]
	e := &bq.HExpr{Kind: "cmp", Left: b, Op: []string{"=", "<", ">"}[rng.Intn(3)]}
	if mismatch && rng.Intn(4) == 0 {
		// constant of another kind
		k = []string{"int64", "float64", "text", "time", "node", "pred", "bool"}[rng.Intn(7)]
	}
	// another binding of the same kind
	if rng.Intn(4) == 0 {
		var same []string
		for _, o := range names {
			if o != b && kinds[o] == kinds[b] {
				same = append(same, o)
			}
		}
		if len(same) > 0 {
			e.RBind = same[rng.Intn(len(same))]
			if kinds[b] == "node" || kinds[b] == "pred" || kinds[b] == "bool" || kinds[b] == "blob" || kinds[b] == "mixed" {
				e.Op = "="
			}
			return e
		}
	}
	switch k {
	case "int64":
		e.RLit = MustLitI([]int64{-7, -4, -3, 0, 1, 4, 5, 11, 12, 100, -100, 2, 3, 9007199254740992, 9007199254740993, 9223372036854775806, -9223372036854775807}[rng.Intn(17)])
	case "float64":
		e.RLit = MustLitF([]float64{-2.5, -2.75, 0, 0.25, 0.2500001, 3, 2.999, 1e32, -1e32, 1e-9, 0.5, 1.0000001, 1.00000015, 1.0000002}[rng.Intn(14)])
	case "text":
		// (letter-case variants of one text are different constants)
		e.RLit = MustLitT([]string{"abc", "ab", "b c", "a", "abd", "", "!", "/u", "u", "a b", "b", "c", "p", "q", "_r", "/t", "/u/x", "ABC", "Abc", "AB", "B C", "P", "Q"}[rng.Intn(23)])
	case "time":
		ts := []time.Time{T0, T1, T2, T2Z, T3, T4, T2.Add(time.Nanosecond), T2.Add(-time.Nanosecond).In(time.FixedZone("", -5*3600))}
		t := ts[rng.Intn(len(ts))]
		e.RTime = &t
	case "node":
		e.RNode = VNodes[rng.Intn(len(VNodes))]
		e.Op = "="
	case "pred":
		ps := VPreds()
		p := ps[rng.Intn(len(ps))]
		if ta, err := p.TimeAnchor(); err == nil && ta.Equal(T2) && rng.Intn(2) == 0 {
			p = MustTemp(string(p.ID()), T2Z)
		}
		e.RPred = p
		e.Op = "="
	case "bool":
		e.RLit = VLits[11+rng.Intn(2)]
		e.Op = "="
	default:
		e.RLit = VLits[rng.Intn(len(VLits))]
		e.Op = "="
	}
	return e
}

// BoundAliasStatement draws a SELECT whose later clause has a predicate bound
// with binding limits ("id"@[?lo,?hi]) and shares a binding with an earlier
// clause; the limit bindings are bound to times earlier, bound to other
// values, or not bound at all.
func BoundAliasStatement(rng *rand.Rand, data []*triple.Triple) string {
	cs := MatchingPattern(rng, data, 1)
	first := cs[0]
	lo, hi := "?lo", "?hi"
	switch rng.Intn(4) {
	case 0: // bound to times by the first clause
		first.P = bq.PB([]string{"p", "q"}[rng.Intn(2)], "?lo")
		first.PAs, first.PID, first.PAt = "", "", ""
		hi = []string{"", "?lo", "?hi"}[rng.Intn(3)]
	case 1: // bound to a non-time value
		if bs := first.Bindings(); len(bs) > 0 {
			lo = bs[rng.Intn(len(bs))]
		}
	case 2:
		lo = ""
	}
	share := "?s9"
	if bs := first.Bindings(); len(bs) > 0 && rng.Intn(4) != 0 {
		share = bs[rng.Intn(len(bs))]
	}
	second := bq.Clause{S: bq.B(share), P: bq.PBdB([]string{"p", "q"}[rng.Intn(2)], lo, hi), O: bq.B("?x9")}
	if rng.Intn(3) == 0 {
		second.S, second.O = bq.B("?y9"), bq.B(share)
	}
	if rng.Intn(5) == 0 {
		second.Optional = true
	}
	q := SelectAll([]bq.Clause{first, second}, someGraphs(rng, 1))
	if len(q.Vars) == 0 {
		q.Vars = []bq.Proj{{Binding: "?x9"}}
	}
	return q.Text()
}

// RandomStatement draws a statement of any of the eight kinds, semantically
// plausible but not necessarily valid (C08).
func RandomStatement(rng *rand.Rand, data []*triple.Triple) string {
	if rng.Intn(12) == 0 {
		return BoundAliasStatement(rng, data)
	}
	switch rng.Intn(12) {
	case 0:
		return DataStmt(rng, "insert", data).Text()
	case 1:
		return DataStmt(rng, "delete", data).Text()
	case 2:
		return (&bq.Stmt{Kind: "create", Graphs: someGraphs(rng, 1+rng.Intn(2))}).Text()
	case 3:
		return (&bq.Stmt{Kind: "drop", Graphs: someGraphs(rng, 1+rng.Intn(2))}).Text()
	case 4:
		return "SHOW GRAPHS;"
	case 5:
		return ConstructStmt(rng, "construct", data, rng.Intn(2) == 0).Text()
	case 6:
		return ConstructStmt(rng, "deconstruct", data, rng.Intn(2) == 0).Text()
	}
	// SELECT with any tail
	shapes := AllShapes()
	cs := RandomPattern(rng, shapes, data, 1+rng.Intn(3))
	if rng.Intn(4) == 0 {
		for i := range cs {
			if i > 0 && rng.Intn(2) == 0 {
				cs[i].Optional = true
			}
		}
	}
	// occasionally reuse any binding anywhere (including TYPE/ID strings in S/P/O)
	if rng.Intn(3) == 0 && len(cs) > 1 {
		var all []string
		for _, c := range cs[:len(cs)-1] {
			all = append(all, c.Bindings()...)
		}
		last := cs[len(cs)-1]
		bs := last.Bindings()
		if len(all) > 0 && len(bs) > 0 {
			cs[len(cs)-1] = RenameBinding(last, bs[rng.Intn(len(bs))], all[rng.Intn(len(all))])
		}
	}
	// bounds whose limits are bindings: bound earlier, bound to a non-time
	// value, or never bound at all
	if rng.Intn(4) == 0 {
		var all []string
		for _, c := range cs {
			all = append(all, c.Bindings()...)
		}
		all = append(all, "?unbound1", "?unbound2")
		i := rng.Intn(len(cs))
		b := bq.PBdB([]string{"p", "q"}[rng.Intn(2)], all[rng.Intn(len(all))], all[rng.Intn(len(all))])
		if rng.Intn(3) == 0 {
			b.HiB = ""
		}
		if rng.Intn(2) == 0 {
			cs[i].P, cs[i].PAs, cs[i].PID, cs[i].PAt = b, "", "", ""
		} else {
			cs[i].O, cs[i].OAs, cs[i].OType, cs[i].OID, cs[i].OAt = b, "", "", "", ""
		}
	}
	q := SelectAll(cs, someGraphs(rng, 1+rng.Intn(2)))
	if len(q.Vars) == 0 {
		q.Vars = []bq.Proj{{Binding: "?nosuch"}}
	}
	RandomBounds(rng, q)
	if rng.Intn(3) == 0 {
		// aggregates
		for i := range q.Vars {
			if rng.Intn(2) == 0 {
				q.Vars[i].Op = []string{"count", "countd", "sum"}[rng.Intn(3)]
				q.Vars[i].Alias = fmt.Sprintf("?agg%d", i)
			} else if rng.Intn(3) != 0 {
				if rng.Intn(3) == 0 {
					q.Vars[i].Alias = fmt.Sprintf("?al%d", i)
				}
				q.GroupBy = append(q.GroupBy, q.Vars[i].Out())
			}
		}
	}
	outs := q.OutBindings()
	if rng.Intn(3) == 0 {
		for k := 0; k < 1+rng.Intn(2); k++ {
			q.OrderBy = append(q.OrderBy, bq.Order{Binding: outs[rng.Intn(len(outs))], Dir: []string{"", "ASC", "DESC"}[rng.Intn(3)]})
		}
	}
	if rng.Intn(3) == 0 {
		kinds := map[string]string{}
		for _, o := range outs {
			kinds[o] = []string{"int64", "float64", "text", "time", "node", "pred", "bool"}[rng.Intn(7)]
		}
		q.Having = HavingExpr(rng, kinds, 3, true).Text()
	}
	if rng.Intn(3) == 0 {
		q.Limit = LimitTexts[rng.Intn(len(LimitTexts))]
	}
	return q.Text()
}

// SomeGraphs draws n graph names (with the occasional repetition).
func SomeGraphs(rng *rand.Rand, n int) []string { return someGraphs(rng, n) }

// ConstructStmtMatching draws a well-typed CONSTRUCT / DECONSTRUCT whose WHERE
// pattern is built from stored triples (so it usually has solutions) and whose
// templates use no explicit blank node.
func ConstructStmtMatching(rng *rand.Rand, kind string, data []*triple.Triple) *bq.Stmt {
	where := MatchingPattern(rng, data, 1+rng.Intn(2))
	s := &bq.Stmt{Kind: kind, Where: where, In: someGraphs(rng, 1+rng.Intn(2)), Out: someGraphs(rng, 1+rng.Intn(2))}
	for tries := 0; tries < 20; tries++ {
		s.Templates = Templates(rng, where, kind == "construct", true)
		ok := true
		for _, t := range s.Templates {
			if t.S.Kind == bq.KBlank {
				ok = false
			}
			for _, p := range t.Pairs {
				if p.O.Kind == bq.KBlank {
					ok = false
				}
			}
		}
		if ok {
			break
		}
	}
	if kind == "deconstruct" {
		// prefer templates that mirror the pattern so that something is removed
		if rng.Intn(2) == 0 {
			c := where[0]
			if c.S.Kind == bq.KBinding && (c.P.Kind == bq.KBinding || c.P.Kind == bq.KPred) && (c.O.Kind == bq.KBinding || c.O.Const()) {
				s.Templates = []bq.Template{{S: c.S, Pairs: []bq.Pair{{P: c.P, O: c.O}}}}
			}
		}
	}
	return s
}

// IllTypedConstruct draws a CONSTRUCT / DECONSTRUCT whose WHERE pattern is
// built from stored triples (so it has solutions) and whose templates are well
// typed except for exactly one slot — subject, predicate, anchor or object of
// the first or of a later (';') pair — that holds a binding of a kind that
// cannot stand there, so that the statement fails while rows are being
// instantiated, after the background writer has been started.
func IllTypedConstruct(rng *rand.Rand, kind string, data []*triple.Triple) *bq.Stmt {
	var s *bq.Stmt
	for tries := 0; tries < 30; tries++ {
		s = ConstructStmtMatching(rng, kind, data)
		kinds := bindingKinds(s.Where)
		nonNode := bindingsOf(kinds, "pred", "time", "str")
		nonPred := bindingsOf(kinds, "node", "time", "str")
		nonTime := bindingsOf(kinds, "node", "pred", "str")
		anyB := bindingsOf(kinds, "any")
		nonNode, nonPred, nonTime = append(nonNode, anyB...), append(nonPred, anyB...), append(nonTime, anyB...)
		if len(nonPred) == 0 || len(nonNode) == 0 || len(nonTime) == 0 {
			continue
		}
		ti := rng.Intn(len(s.Templates))
		t := &s.Templates[ti]
		// make room for a later pair now and then
		if kind == "construct" && len(t.Pairs) < 3 && rng.Intn(2) == 0 {
			t.Pairs = append(t.Pairs, bq.Pair{P: bq.P(MustImm("c2")), O: bq.N(VNodes[rng.Intn(len(VNodes))])})
		}
		pi := rng.Intn(len(t.Pairs))
		switch rng.Intn(4) {
		case 0:
			t.S = bq.B(nonNode[rng.Intn(len(nonNode))])
		case 1:
			t.Pairs[pi].P = bq.B(nonPred[rng.Intn(len(nonPred))])
		case 2:
			t.Pairs[pi].P = bq.PB("c1", nonTime[rng.Intn(len(nonTime))])
		default:
			t.Pairs[pi].O = bq.PB("c3", nonTime[rng.Intn(len(nonTime))])
		}
		return s
	}
	return s
}

// MixedAggregateStatements lists SELECT statements that aggregate over columns
// mixing kinds of values (numeric literals first, then nodes / text /
// predicates / NULL) on the graphs of MixedNumericData, in both FROM orders.
func MixedAggregateStatements() []string {
	var res []string
	patterns := []string{
		`{ ?s ?p ?o }`, `{ ?s "p"@[] ?o }`, `{ /u<a> ?p ?o }`, `{ ?s "q"@[] ?o }`,
		`{ ?s "p"@[] ?o . OPTIONAL { ?s "q"@[] ?x } }`, `{ ?s ?p ?o . OPTIONAL { ?o "q"@[] ?x } }`,
		`{ ?s "p"@[?t] ?o }`, `{ ?s ?p ?o . ?s "q"@[] ?x }`,
	}
	froms := []string{"?gn, ?gm", "?gm, ?gn", "?gn", "?gm"}
	for _, pat := range patterns {
		outs := []string{"?o"}
		if strings.Contains(pat, "?s") {
			outs = append(outs, "?s")
		}
		if strings.Contains(pat, "?p ") {
			outs = append(outs, "?p")
		}
		if strings.Contains(pat, "?x") {
			outs = append(outs, "?x")
		}
		if strings.Contains(pat, "?t") {
			outs = append(outs, "?t")
		}
		for _, agg := range outs {
			for _, fn := range []string{"sum(%s)", "count(%s)", "count(distinct %s)"} {
				for _, key := range outs {
					if key == agg {
						continue
					}
					for _, from := range froms {
						res = append(res, fmt.Sprintf("SELECT %s, %s AS ?total FROM %s WHERE %s GROUP BY %s;", key, fmt.Sprintf(fn, agg), from, pat, key))
					}
				}
				res = append(res, fmt.Sprintf("SELECT %s AS ?total FROM ?gn, ?gm WHERE %s;", fmt.Sprintf(fn, agg), pat))
			}
		}
	}
	return res
}

// MixedNumericData: ?gn holds numeric literals only, ?gm the same subjects and
// predicates with nodes, text, predicates and more numbers.
func MixedNumericData() bq.Data {
	a, b := VNodes[0], VNodes[1]
	p, q, pt := MustImm("p"), MustImm("q"), MustTemp("p", T1)
	l := func(i int) *triple.Object { return triple.NewLiteralObject(VLits[i]) }
	return bq.Data{
		"?gn": {MustTriple(a, p, l(3)), MustTriple(a, p, l(4)), MustTriple(b, p, l(6)), MustTriple(a, q, l(3)), MustTriple(a, pt, l(1)), MustTriple(b, pt, l(5))},
		"?gm": {MustTriple(a, p, triple.NewNodeObject(b)), MustTriple(a, p, l(8)), MustTriple(b, p, triple.NewPredicateObject(q)), MustTriple(a, q, l(6)), MustTriple(b, q, triple.NewNodeObject(a)),
			MustTriple(a, pt, triple.NewNodeObject(a)), MustTriple(b, p, l(11)), MustTriple(b, p, l(0))},
	}
}

// NullReuseStatements lists statements in which a binding introduced by an
// OPTIONAL clause (NULL for the rows without a match) is used again in every
// kind of place: subject, predicate, object, anchor, bound limit, HAVING,
// ORDER BY, GROUP BY, aggregates, templates.
func NullReuseStatements() []string {
	opt := []string{
		`?s "p"@[] ?o . OPTIONAL { ?s "q"@[?t] ?x }`,
		`?s "p"@[] ?o . OPTIONAL { ?o "q"@[] ?x }`,
		`?s ?p ?o . OPTIONAL { ?s "p"@[?t] ?x AT ?a }`,
		`?s "n"@[] ?o . OPTIONAL { ?s "q"@[] ?x } . OPTIONAL { ?x "p"@[?t] ?y }`,
	}
	later := []string{
		`?s "p"@[?t] ?y`, `?x "p"@[] ?y`, `?y ?x ?z`, `?y "p"@[] ?x`, `?s "q"@[?t,] ?y`, `?s "q"@[,?t] ?y`, `?s "q"@[?t,?t] ?y`, `?y "q"@[] "p"@[?t]`,
		`?x ?p2 ?y AT ?t`, `?x ID ?i "p"@[] ?y`, `?y "p"@[] ?x TYPE ?ty`, `OPTIONAL { ?x "q"@[?t] ?y }`, `?a "p"@[] ?y`, `?s "p"@[?a] ?y`,
	}
	var res []string
	for _, o := range opt {
		for _, l := range later {
			res = append(res, fmt.Sprintf("SELECT ?s, ?y FROM ?g1, ?gn, ?gm WHERE { %s . %s };", o, l))
		}
		res = append(res,
			fmt.Sprintf("SELECT ?s, ?x FROM ?g1, ?gn WHERE { %s } ORDER BY ?x DESC, ?s;", o),
			fmt.Sprintf("SELECT ?x, count(?s) AS ?n FROM ?g1, ?gn WHERE { %s } GROUP BY ?x;", o),
			fmt.Sprintf("SELECT ?s, sum(?x) AS ?n FROM ?gn, ?gm WHERE { %s } GROUP BY ?s;", o),
			fmt.Sprintf("SELECT ?s, count(distinct ?x) AS ?n FROM ?g1, ?gn WHERE { %s } GROUP BY ?s HAVING ?n > \"0\"^^type:int64;", o),
			fmt.Sprintf("SELECT ?s, ?x FROM ?g1, ?gn WHERE { %s } HAVING ?x = /u<a>;", o),
			fmt.Sprintf("SELECT ?s, ?x FROM ?g1, ?gn WHERE { %s } HAVING (?x < \"5\"^^type:int64) OR NOT ?x = ?s;", o),
			fmt.Sprintf("CONSTRUCT { ?s \"c1\"@[] ?x } INTO ?g2 FROM ?g1, ?gn WHERE { %s };", o),
			fmt.Sprintf("CONSTRUCT { ?x \"c1\"@[] ?s ; \"c2\"@[] ?x } INTO ?g2 FROM ?g1, ?gn WHERE { %s };", o),
			fmt.Sprintf("DECONSTRUCT { ?s \"p\"@[] ?x } IN ?g2 FROM ?g1, ?gn WHERE { %s };", o),
		)
		if strings.Contains(o, "?t") {
			res = append(res,
				fmt.Sprintf("SELECT ?s, ?t FROM ?g1, ?gn WHERE { %s } HAVING ?t < 2016-01-01T00:00:00Z;", o),
				fmt.Sprintf("SELECT ?s, ?t FROM ?g1, ?gn WHERE { %s } ORDER BY ?t, ?s;", o),
				fmt.Sprintf("CONSTRUCT { ?s \"c1\"@[?t] ?o } INTO ?g2 FROM ?g1, ?gn WHERE { %s };", o),
			)
		}
	}
	return res
}

// RepeatedNameStatements lists statements that repeat a name inside one list
// (ORDER BY / GROUP BY keys, projections, graphs), with and without aliases on
// every projection, over patterns that have several rows.
func RepeatedNameStatements() []string {
	var res []string
	for _, pat := range []string{`{ ?s "p"@[] ?o }`, `{ ?s ?p ?o }`, `{ ?s "n"@[] ?o . ?s "p"@[] ?x }`} {
		for _, from := range []string{"?g1", "?gn, ?gm", "?g1, ?g1"} {
			for _, ord := range []string{"?a, ?b, ?a", "?a DESC, ?b, ?a DESC", "?b, ?b", "?b ASC, ?a, ?b ASC, ?a", "?a, ?a, ?a"} {
				res = append(res, fmt.Sprintf("SELECT ?s AS ?a, ?o AS ?b FROM %s WHERE %s ORDER BY %s;", from, pat, ord))
				res = append(res, fmt.Sprintf("SELECT ?s AS ?a, ?o AS ?b FROM %s WHERE %s ORDER BY %s LIMIT \"3\"^^type:int64;", from, pat, ord))
			}
			res = append(res,
				fmt.Sprintf("SELECT ?s, count(?o) AS ?n FROM %s WHERE %s GROUP BY ?s ORDER BY ?s, ?n, ?s;", from, pat),
				fmt.Sprintf("SELECT ?s, count(?o) AS ?n FROM %s WHERE %s GROUP BY ?s, ?s ORDER BY ?n DESC, ?n DESC;", from, pat),
				fmt.Sprintf("SELECT ?s AS ?k, count(?o) AS ?n, count(?o) AS ?m FROM %s WHERE %s GROUP BY ?k ORDER BY ?k, ?m, ?k HAVING ?n = ?m;", from, pat),
				fmt.Sprintf("SELECT ?s, ?s AS ?t, ?o, ?o AS ?u FROM %s WHERE %s ORDER BY ?t, ?s, ?u, ?t;", from, pat),
				fmt.Sprintf("SELECT ?s, ?o FROM %s WHERE %s ORDER BY ?s, ?o, ?s, ?o;", from, pat),
				// keys that name a binding by what it was called before AS renamed it
				fmt.Sprintf("SELECT ?s AS ?who, count(?o) AS ?n FROM %s WHERE %s GROUP BY ?s ORDER BY ?s;", from, pat),
				fmt.Sprintf("SELECT ?s AS ?who, count(?o) AS ?n FROM %s WHERE %s GROUP BY ?who ORDER BY ?s;", from, pat),
				fmt.Sprintf("SELECT ?s AS ?who, count(?o) AS ?n FROM %s WHERE %s GROUP BY ?who ORDER BY ?o DESC;", from, pat),
				fmt.Sprintf("SELECT ?s AS ?who, sum(?o) AS ?n FROM %s WHERE %s GROUP BY ?who ORDER BY ?n, ?s;", from, pat),
				fmt.Sprintf("SELECT ?s AS ?who, count(distinct ?o) AS ?n FROM %s WHERE %s GROUP BY ?who HAVING ?s = ?s;", from, pat),
				fmt.Sprintf("SELECT ?s AS ?who, ?o AS ?what FROM %s WHERE %s ORDER BY ?s, ?o DESC;", from, pat),
				fmt.Sprintf("SELECT ?s AS ?who, ?o AS ?what FROM %s WHERE %s GROUP BY ?s, ?o ORDER BY ?who;", from, pat),
				fmt.Sprintf("SELECT ?s AS ?who, ?o AS ?what FROM %s WHERE %s ORDER BY ?who HAVING ?o = ?s;", from, pat),
			)
		}
	}
	return res
}
