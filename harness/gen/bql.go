package gen

import (
	"bwverif/cv"
	"fmt"
	"math/rand"
	"time"

	"bwverif/bq"

	"github.com/google/badwolf/triple"
	"github.com/google/badwolf/triple/literal"
	"github.com/google/badwolf/triple/predicate"
)

// GraphVars are the graph names used by the BQL monitors.
var GraphVars = []string{"?g1", "?g2", "?g3"}

// DataSet draws 1-3 graphs of vocabulary triples. With numeric set, extra
// int64 / float64 facts are added (for aggregates and ordering).
func DataSet(rng *rand.Rand, graphs, size int, numeric bool) bq.Data {
	d := bq.Data{}
	for gi := 0; gi < graphs; gi++ {
		seen := map[string]bool{}
		var ts []*triple.Triple
		n := size/2 + rng.Intn(size/2+1)
		for tries := 0; len(ts) < n && tries < 20*n; tries++ {
			var t *triple.Triple
			if numeric && rng.Intn(2) == 0 {
				var l *literal.Literal
				if rng.Intn(2) == 0 {
					l = VLits[rng.Intn(5)]
				} else {
					l = VLits[5+rng.Intn(3)]
				}
				id := []string{"p", "q"}[rng.Intn(2)]
				var p *predicate.Predicate
				if rng.Intn(3) == 0 {
					p = MustTemp(id, Times[rng.Intn(3)])
				} else {
					p = MustImm(id)
				}
				t = MustTriple(VNodes[rng.Intn(len(VNodes))], p, triple.NewLiteralObject(l))
			} else {
				t = VTriple(rng, true)
			}
			// bias towards joinable data: node objects that are subjects elsewhere
			if rng.Intn(3) == 0 {
				t = MustTriple(t.Subject(), t.Predicate(), triple.NewNodeObject(VNodes[rng.Intn(len(VNodes))]))
			}
			k := cv.Triple(t)
			if !seen[k] {
				seen[k] = true
				ts = append(ts, t)
			}
		}
		d[GraphVars[gi]] = ts
	}
	return d
}

// AllTriples flattens a data set.
func AllTriples(d bq.Data) []*triple.Triple {
	var res []*triple.Triple
	for _, g := range GraphVars {
		res = append(res, d[g]...)
	}
	return res
}

// ---------------------------------------------------------------------------
// shapes

// STerm / PTerm / OTerm enumerate the position forms of the one-clause space.
// fresh bindings are named by position so that shapes can be combined.

type sForm struct {
	name string
	mk   func(d []*triple.Triple, i int) bq.Term
}

func pick(d []*triple.Triple, i int) *triple.Triple {
	if len(d) == 0 {
		return MustTriple(VNodes[0], MustImm("p"), triple.NewNodeObject(VNodes[1]))
	}
	return d[i%len(d)]
}

func tptr(t time.Time) *time.Time { return &t }

// SForms are the subject forms.
var SForms = []sForm{
	{"stored", func(d []*triple.Triple, i int) bq.Term { return bq.N(pick(d, i).Subject()) }},
	{"absent", func(d []*triple.Triple, i int) bq.Term { return bq.N(AbsentNode) }},
	{"binding", func(d []*triple.Triple, i int) bq.Term { return bq.B("?s") }},
}

// PForms are the predicate forms.
var PForms = []sForm{
	{"imm-stored", func(d []*triple.Triple, i int) bq.Term {
		return bq.P(MustImm(string(pick(d, i).Predicate().ID())))
	}},
	{"imm-absent", func(d []*triple.Triple, i int) bq.Term { return bq.P(MustImm("absent")) }},
	{"temporal", func(d []*triple.Triple, i int) bq.Term {
		return bq.P(MustTemp(string(pick(d, i).Predicate().ID()), Times[i%3]))
	}},
	{"temporal-zone", func(d []*triple.Triple, i int) bq.Term {
		return bq.P(MustTemp(string(pick(d, i).Predicate().ID()), T2Z))
	}},
	{"binding", func(d []*triple.Triple, i int) bq.Term { return bq.B("?p") }},
	{"anchor-binding", func(d []*triple.Triple, i int) bq.Term { return bq.PB(string(pick(d, i).Predicate().ID()), "?t") }},
	{"bound-open", func(d []*triple.Triple, i int) bq.Term { return bq.PBd(string(pick(d, i).Predicate().ID()), nil, nil) }},
	{"bound-both", func(d []*triple.Triple, i int) bq.Term {
		return bq.PBd(string(pick(d, i).Predicate().ID()), tptr(T1), tptr(T2Z))
	}},
	{"bound-lower", func(d []*triple.Triple, i int) bq.Term {
		return bq.PBd(string(pick(d, i).Predicate().ID()), tptr(T2), nil)
	}},
}

// OForms are the object forms.
var OForms = []sForm{
	{"node", func(d []*triple.Triple, i int) bq.Term {
		for k := 0; k < len(d); k++ {
			if n, err := pick(d, i+k).Object().Node(); err == nil {
				return bq.N(n)
			}
		}
		return bq.N(VNodes[1])
	}},
	{"literal", func(d []*triple.Triple, i int) bq.Term {
		for k := 0; k < len(d); k++ {
			if l, err := pick(d, i+k).Object().Literal(); err == nil {
				return bq.L(l)
			}
		}
		return bq.L(VLits[3])
	}},
	{"predicate", func(d []*triple.Triple, i int) bq.Term {
		for k := 0; k < len(d); k++ {
			if p, err := pick(d, i+k).Object().Predicate(); err == nil {
				return bq.P(p)
			}
		}
		return bq.P(MustImm("p"))
	}},
	{"binding", func(d []*triple.Triple, i int) bq.Term { return bq.B("?o") }},
	{"subject-binding", func(d []*triple.Triple, i int) bq.Term { return bq.B("?s") }},
	{"anchor-binding", func(d []*triple.Triple, i int) bq.Term { return bq.PB("p", "?ot") }},
	{"bound-both", func(d []*triple.Triple, i int) bq.Term { return bq.PBd("p", tptr(T1), tptr(T2)) }},
}

// extraction subsets
var sExtr = [][3]bool{{false, false, false}, {true, false, false}, {false, true, false}, {false, false, true}, {false, true, true}, {true, true, true}}

// pExtr: AS, ID, AT
var pExtr = [][3]bool{{false, false, false}, {true, false, false}, {false, true, false}, {false, false, true}, {true, true, true}, {false, true, true}}

// oExtr: AS, TYPE, ID, AT
var oExtr = [][4]bool{{false, false, false, false}, {true, false, false, false}, {false, true, false, false}, {false, false, true, false}, {false, false, false, true}, {true, true, true, false}, {false, false, true, true}}

// Shape identifies a one-clause shape.
type Shape struct {
	S, P, O    int
	SE, PE, OE int
}

func (s Shape) String() string {
	return fmt.Sprintf("S=%s%v P=%s%v O=%s%v", SForms[s.S].name, sExtr[s.SE], PForms[s.P].name, pExtr[s.PE], OForms[s.O].name, oExtr[s.OE])
}

// Extractions counts the extraction keywords a shape uses.
func (s Shape) Extractions() int {
	n := 0
	for _, b := range sExtr[s.SE] {
		if b {
			n++
		}
	}
	for _, b := range pExtr[s.PE] {
		if b {
			n++
		}
	}
	for _, b := range oExtr[s.OE] {
		if b {
			n++
		}
	}
	return n
}

// AllShapes enumerates the one-clause shape space (grammar-admissible
// combinations only).
func AllShapes() []Shape {
	var res []Shape
	for s := range SForms {
		for se := range sExtr {
			for p := range PForms {
				for pe := range pExtr {
					// bound forms take no AT binding list here
					if (PForms[p].name == "bound-open" || PForms[p].name == "bound-both" || PForms[p].name == "bound-lower") && pExtr[pe][2] {
						continue
					}
					for o := range OForms {
						for oe := range oExtr {
							e := oExtr[oe]
							switch OForms[o].name {
							case "literal":
								if e[1] || e[2] || e[3] {
									continue
								}
							case "node":
								if e[3] {
									continue
								}
							case "predicate", "anchor-binding":
								if e[1] {
									continue
								}
							case "bound-both":
								if e[1] || e[3] {
									continue
								}
							}
							res = append(res, Shape{s, p, o, se, pe, oe})
						}
					}
				}
			}
		}
	}
	return res
}

// Build instantiates a shape against a data set; suffix makes its fresh
// binding names unique (so two shapes can be combined without sharing).
func (sh Shape) Build(d []*triple.Triple, i int, suffix string) bq.Clause {
	ren := func(t bq.Term) bq.Term {
		if t.Kind == bq.KBinding {
			t.Binding += suffix
		}
		if t.Kind == bq.KPBind {
			t.TBind += suffix
		}
		return t
	}
	c := bq.Clause{S: ren(SForms[sh.S].mk(d, i)), P: ren(PForms[sh.P].mk(d, i+1)), O: ren(OForms[sh.O].mk(d, i+2))}
	if e := sExtr[sh.SE]; true {
		if e[0] {
			c.SAs = "?sa" + suffix
		}
		if e[1] {
			c.SType = "?sty" + suffix
		}
		if e[2] {
			c.SID = "?sid" + suffix
		}
	}
	if e := pExtr[sh.PE]; true {
		if e[0] {
			c.PAs = "?pa" + suffix
		}
		if e[1] {
			c.PID = "?pid" + suffix
		}
		if e[2] {
			c.PAt = "?pat" + suffix
		}
	}
	if e := oExtr[sh.OE]; true {
		if e[0] {
			c.OAs = "?oa" + suffix
		}
		if e[1] {
			c.OType = "?oty" + suffix
		}
		if e[2] {
			c.OID = "?oid" + suffix
		}
		if e[3] {
			c.OAt = "?oat" + suffix
		}
	}
	return c
}

// SelectAll builds a SELECT over every binding of the clauses.
func SelectAll(clauses []bq.Clause, graphs []string) *bq.Query {
	q := &bq.Query{Graphs: graphs, Clauses: clauses}
	seen := map[string]bool{}
	for _, c := range clauses {
		for _, b := range c.Bindings() {
			if !seen[b] {
				seen[b] = true
				q.Vars = append(q.Vars, bq.Proj{Binding: b})
			}
		}
	}
	return q
}

// ---------------------------------------------------------------------------
// multi-clause patterns

// bindingSort classifies the bindings of a clause: "pos" (subject / predicate /
// object position), "alias" (AS), "str" (TYPE / ID extraction), "time" (anchor
// binding or AT).
func bindingSorts(c bq.Clause) map[string]string {
	m := map[string]string{}
	set := func(b, s string) {
		if b != "" {
			m[b] = s
		}
	}
	if c.S.Kind == bq.KBinding {
		set(c.S.Binding, "pos")
	}
	if c.P.Kind == bq.KBinding {
		set(c.P.Binding, "pos")
	}
	if c.O.Kind == bq.KBinding {
		set(c.O.Binding, "pos")
	}
	if c.P.Kind == bq.KPBind {
		set(c.P.TBind, "time")
	}
	if c.O.Kind == bq.KPBind {
		set(c.O.TBind, "time")
	}
	set(c.SAs, "alias")
	set(c.PAs, "alias")
	set(c.OAs, "alias")
	set(c.SType, "str")
	set(c.SID, "str")
	set(c.PID, "str")
	set(c.OType, "str")
	set(c.OID, "str")
	set(c.PAt, "time")
	set(c.OAt, "time")
	return m
}

// RenameBinding renames a binding everywhere in a clause.
func RenameBinding(c bq.Clause, from, to string) bq.Clause {
	rt := func(t bq.Term) bq.Term {
		if t.Kind == bq.KBinding && t.Binding == from {
			t.Binding = to
		}
		if t.Kind == bq.KPBind && t.TBind == from {
			t.TBind = to
		}
		if t.Kind == bq.KPBound {
			if t.LoB == from {
				t.LoB = to
			}
			if t.HiB == from {
				t.HiB = to
			}
		}
		return t
	}
	rs := func(s string) string {
		if s == from {
			return to
		}
		return s
	}
	c.S, c.P, c.O = rt(c.S), rt(c.P), rt(c.O)
	c.SAs, c.SType, c.SID = rs(c.SAs), rs(c.SType), rs(c.SID)
	c.PAs, c.PID, c.PAt = rs(c.PAs), rs(c.PID), rs(c.PAt)
	c.OAs, c.OType, c.OID, c.OAt = rs(c.OAs), rs(c.OType), rs(c.OID), rs(c.OAt)
	return c
}

// Share renames up to k bindings of c2 to bindings already introduced by the
// earlier clauses, never putting a TYPE/ID string binding into a subject,
// predicate or object position (Appendix A leaves that join undefined).
func Share(rng *rand.Rand, earlier []bq.Clause, c2 bq.Clause, k int) (bq.Clause, int) {
	return share(rng, earlier, c2, k, false)
}

// SharePos is Share restricted to the subject / predicate / object bindings of
// c2 (its extraction bindings stay fresh).
func SharePos(rng *rand.Rand, earlier []bq.Clause, c2 bq.Clause, k int) (bq.Clause, int) {
	return share(rng, earlier, c2, k, true)
}

func share(rng *rand.Rand, earlier []bq.Clause, c2 bq.Clause, k int, onlyPos bool) (bq.Clause, int) {
	prev := map[string]string{}
	var prevNames []string
	for _, c := range earlier {
		for b, s := range bindingSorts(c) {
			if _, ok := prev[b]; !ok {
				prevNames = append(prevNames, b)
			}
			// a binding that is a position binding anywhere counts as "pos"
			if prev[b] != "pos" {
				prev[b] = s
			}
		}
	}
	sortStrings(prevNames)
	shared := 0
	for tries := 0; shared < k && tries < 20 && len(prevNames) > 0; tries++ {
		s2 := bindingSorts(c2)
		var own []string
		for b := range s2 {
			if _, isPrev := prev[b]; !isPrev && (!onlyPos || s2[b] == "pos") {
				own = append(own, b)
			}
		}
		if len(own) == 0 {
			break
		}
		sortStrings(own)
		b2 := own[rng.Intn(len(own))]
		b1 := prevNames[rng.Intn(len(prevNames))]
		if (prev[b1] == "str") != (s2[b2] == "str") {
			// a TYPE/ID string would meet a position / alias / time binding
			continue
		}
		c2 = RenameBinding(c2, b2, b1)
		shared++
	}
	return c2, shared
}

// RandomPattern builds n clauses over the data with shared bindings.
func RandomPattern(rng *rand.Rand, shapes []Shape, d []*triple.Triple, n int) []bq.Clause {
	var cs []bq.Clause
	for i := 0; i < n; i++ {
		sh := shapes[rng.Intn(len(shapes))]
		c := sh.Build(d, rng.Intn(1000), fmt.Sprint(i+1))
		if i > 0 {
			k := rng.Intn(3)
			if rng.Intn(4) != 0 && k == 0 {
				k = 1
			}
			c, _ = Share(rng, cs, c, k)
		}
		cs = append(cs, c)
	}
	return cs
}

// ReducedShapes is the shape subset used for two-clause combinations: every
// position form, with at most one extraction, extraction kinds rotated.
func ReducedShapes() []Shape {
	var res []Shape
	i := 0
	for _, sh := range AllShapes() {
		if sh.Extractions() > 1 {
			continue
		}
		if sh.Extractions() == 1 {
			i++
			if i%7 != 0 {
				continue
			}
		}
		// skip absent constants: they make the result empty
		if SForms[sh.S].name == "absent" || PForms[sh.P].name == "imm-absent" {
			continue
		}
		res = append(res, sh)
	}
	return res
}

// RandomBounds draws a global time bound (or none).
func RandomBounds(rng *rand.Rand, q *bq.Query) {
	ts := []time.Time{T0, T1, T2, T2Z, T3, T4}
	switch rng.Intn(6) {
	case 0:
		t := ts[rng.Intn(len(ts))]
		q.Before = &t
	case 1:
		t := ts[rng.Intn(len(ts))]
		q.After = &t
	case 2:
		a, b := ts[rng.Intn(len(ts))], ts[rng.Intn(len(ts))]
		if b.Before(a) {
			a, b = b, a
		}
		q.Between = &[2]time.Time{a, b}
	}
}

// Reproject replaces the SELECT list by a random non-empty subset with some
// aliases.
func Reproject(rng *rand.Rand, q *bq.Query) {
	var vs []bq.Proj
	for _, v := range q.Vars {
		if rng.Intn(3) == 0 {
			continue
		}
		if rng.Intn(4) == 0 {
			v.Alias = "?x_" + v.Binding[1:]
		}
		vs = append(vs, v)
	}
	if len(vs) > 0 {
		q.Vars = vs
	}
}

// FriendlyShapes are shapes that tend to match: a binding or stored node as
// subject, a stored / bound / variable predicate, a binding or node as object.
func FriendlyShapes() []Shape {
	var res []Shape
	for _, sh := range ReducedShapes() {
		sn, pn, on := SForms[sh.S].name, PForms[sh.P].name, OForms[sh.O].name
		if sn == "absent" || pn == "imm-absent" || pn == "temporal" || pn == "temporal-zone" || pn == "bound-lower" {
			continue
		}
		if on != "binding" && on != "node" {
			continue
		}
		if sn == "stored" && on == "node" {
			continue
		}
		res = append(res, sh)
	}
	return res
}

// DenseDataSet draws graphs over very few nodes and predicate ids, so that
// joins, repeated values and ties are frequent.
func DenseDataSet(rng *rand.Rand, graphs, size int, numeric bool) bq.Data {
	ns := VNodes[:3]
	preds := []*predicate.Predicate{MustImm("p"), MustImm("q"), MustTemp("p", T1), MustTemp("p", T2), MustTemp("p", T2Z), MustTemp("q", T3), MustTemp("q", T1)}
	var objs []*triple.Object
	for _, n := range ns {
		objs = append(objs, triple.NewNodeObject(n), triple.NewNodeObject(n))
	}
	objs = append(objs, triple.NewLiteralObject(VLits[3]), triple.NewLiteralObject(VLits[8]), triple.NewPredicateObject(MustTemp("p", T1)), triple.NewPredicateObject(MustImm("q")))
	if numeric {
		for _, l := range VLits[:8] {
			objs = append(objs, triple.NewLiteralObject(l))
		}
		// numbers that only differ beyond float64 / six-decimal precision
		for _, l := range ExtremeLits {
			if rng.Intn(2) == 0 {
				objs = append(objs, triple.NewLiteralObject(l))
			}
		}
	}
	// now and then: anchors inside one second whose printed fractions are prefixes of one
	// another, a text that differs from another by letter case only
	if rng.Intn(3) == 0 {
		preds = append(preds, MustTemp("q", T3.Truncate(time.Second)), MustTemp("q", T3.Add(50*time.Millisecond)))
	}
	if rng.Intn(3) == 0 {
		objs = append(objs, triple.NewLiteralObject(MustLit(literal.Text, "ABC")), triple.NewLiteralObject(MustLit(literal.Text, "Abc")))
	}
	// anchors outside the range of int64 nanoseconds since 1970, now and then
	if rng.Intn(2) == 0 {
		preds = append(preds, MustTemp("p", TFarFuture), MustTemp("q", TFarPast))
		objs = append(objs, triple.NewPredicateObject(MustTemp("p", TFarPast)))
	}
	// single-kind columns for ordering: "n" only ever has int64 objects (the ends
	// of the range included), "f" only float64 objects
	var ints, floats []*triple.Object
	if numeric {
		for _, l := range VLits[:5] {
			ints = append(ints, triple.NewLiteralObject(l))
		}
		for _, l := range VLits[5:8] {
			floats = append(floats, triple.NewLiteralObject(l))
		}
		for _, l := range ExtremeLits {
			if l.Type() == literal.Int64 {
				ints = append(ints, triple.NewLiteralObject(l))
			} else {
				floats = append(floats, triple.NewLiteralObject(l))
			}
		}
	}
	d := bq.Data{}
	for gi := 0; gi < graphs; gi++ {
		seen := map[string]bool{}
		var ts []*triple.Triple
		n := size/2 + rng.Intn(size/2+1)
		add := func(t *triple.Triple) {
			if k := cv.Triple(t); !seen[k] {
				seen[k] = true
				ts = append(ts, t)
			}
		}
		for tries := 0; len(ts) < n && tries < 30*n; tries++ {
			add(MustTriple(ns[rng.Intn(len(ns))], preds[rng.Intn(len(preds))], objs[rng.Intn(len(objs))]))
		}
		if numeric {
			for k := 2 + rng.Intn(5); k > 0; k-- {
				add(MustTriple(ns[rng.Intn(len(ns))], MustImm("n"), ints[rng.Intn(len(ints))]))
			}
			for k := rng.Intn(4); k > 0; k-- {
				add(MustTriple(ns[rng.Intn(len(ns))], MustImm("f"), floats[rng.Intn(len(floats))]))
			}
		}
		d[GraphVars[gi]] = ts
	}
	return d
}

// MatchingPattern builds 1-2 clauses by generalising stored triples, so the
// pattern has at least one solution: each component of a picked triple is kept
// as a constant or replaced by a binding; the second clause is joined with the
// first through a shared node when the data allows.
func MatchingPattern(rng *rand.Rand, d []*triple.Triple, clauses int) []bq.Clause {
	if len(d) == 0 {
		return []bq.Clause{{S: bq.B("?s1"), P: bq.B("?p1"), O: bq.B("?o1")}}
	}
	gen1 := func(t *triple.Triple, sfx string, sBind string) bq.Clause {
		c := bq.Clause{}
		if sBind != "" {
			c.S = bq.B(sBind)
		} else if rng.Intn(4) != 0 {
			c.S = bq.B("?s" + sfx)
		} else {
			c.S = bq.N(t.Subject())
		}
		switch rng.Intn(5) {
		case 0:
			c.P = bq.P(t.Predicate())
		case 1:
			if _, err := t.Predicate().TimeAnchor(); err == nil {
				c.P = bq.PB(string(t.Predicate().ID()), "?t"+sfx)
			} else {
				c.P = bq.B("?p" + sfx)
			}
		case 2:
			if _, err := t.Predicate().TimeAnchor(); err == nil {
				c.P = bq.PBd(string(t.Predicate().ID()), nil, nil)
			} else {
				c.P = bq.P(t.Predicate())
			}
		default:
			c.P = bq.B("?p" + sfx)
		}
		if rng.Intn(5) == 0 {
			o := t.Object()
			if n, err := o.Node(); err == nil {
				c.O = bq.N(n)
			} else if p, err := o.Predicate(); err == nil {
				c.O = bq.P(p)
			} else {
				l, _ := o.Literal()
				c.O = bq.L(l)
			}
		} else {
			c.O = bq.B("?o" + sfx)
		}
		// extractions that apply to this triple
		if rng.Intn(4) == 0 {
			c.SID = "?sid" + sfx
		}
		if rng.Intn(6) == 0 {
			c.SType = "?sty" + sfx
		}
		if rng.Intn(5) == 0 {
			c.PID = "?pid" + sfx
		}
		if _, err := t.Predicate().TimeAnchor(); err == nil && rng.Intn(4) == 0 && c.P.Kind != bq.KPBind {
			c.PAt = "?pat" + sfx
		}
		if _, err := t.Object().Node(); err == nil && rng.Intn(5) == 0 {
			c.OID = "?oid" + sfx
		}
		if rng.Intn(8) == 0 && c.O.Kind == bq.KBinding {
			c.OAs = "?oa" + sfx
		}
		return c
	}
	t1 := d[rng.Intn(len(d))]
	cs := []bq.Clause{gen1(t1, "1", "")}
	if clauses > 1 {
		// join through the object of the first triple when it is a node that is
		// also a subject
		var cands []*triple.Triple
		if n, err := t1.Object().Node(); err == nil && cs[0].O.Kind == bq.KBinding {
			for _, t := range d {
				if t.Subject().String() == n.String() {
					cands = append(cands, t)
				}
			}
		}
		if len(cands) > 0 {
			cs = append(cs, gen1(cands[rng.Intn(len(cands))], "2", cs[0].O.Binding))
		} else if cs[0].S.Kind == bq.KBinding {
			for _, t := range d {
				if t.Subject().String() == t1.Subject().String() {
					cands = append(cands, t)
				}
			}
			cs = append(cs, gen1(cands[rng.Intn(len(cands))], "2", cs[0].S.Binding))
		}
	}
	return cs
}

// AddBoundAlias appends a clause whose predicate is a bound with binding limits
// ("id"@[?lo,?hi], either side may be empty) taking its limits from time
// bindings an earlier clause introduces ("id"@[?t], AT ?t, anchors of reified
// predicate objects). It returns the pattern unchanged when no clause binds a
// time. The new clause shares a node binding with the pattern when it can.
func AddBoundAlias(rng *rand.Rand, cs []bq.Clause) ([]bq.Clause, bool) {
	kinds := bindingKinds(cs)
	times := bindingsOf(kinds, "time")
	if len(times) == 0 {
		// no clause binds a time: add a binder (a temporal predicate, or the
		// anchor of a reified predicate object, which global bounds do not touch)
		b := bq.Clause{S: bq.B("?sb"), P: bq.PB([]string{"p", "q"}[rng.Intn(2)], "?tb"), O: bq.B("?ob")}
		if rng.Intn(2) == 0 {
			b = bq.Clause{S: bq.B("?sb"), P: bq.B("?pb"), O: bq.PB("p", "?tb")}
		}
		if nodes := bindingsOf(kinds, "node"); len(nodes) > 0 && rng.Intn(2) == 0 {
			b.S = bq.B(nodes[rng.Intn(len(nodes))])
		}
		cs = append(append([]bq.Clause{}, cs...), b)
		kinds = bindingKinds(cs)
		times = bindingsOf(kinds, "time")
	}
	nodes := bindingsOf(kinds, "node")
	sfx := fmt.Sprint(len(cs) + 1)
	c := bq.Clause{S: bq.B("?s" + sfx), O: bq.B("?o" + sfx)}
	if len(nodes) > 0 && rng.Intn(3) != 0 {
		c.S = bq.B(nodes[rng.Intn(len(nodes))])
	} else if rng.Intn(3) == 0 {
		c.S = bq.N(VNodes[rng.Intn(3)])
	}
	lo, hi := times[rng.Intn(len(times))], times[rng.Intn(len(times))]
	switch rng.Intn(3) {
	case 0:
		lo = ""
	case 1:
		hi = ""
	}
	if rng.Intn(3) == 0 {
		// the bound in the object position: the object must be a predicate with
		// that id anchored inside the limits
		c.P = bq.B("?p" + sfx)
		c.O = bq.PBdB([]string{"p", "q"}[rng.Intn(2)], lo, hi)
		if rng.Intn(2) == 0 {
			c.OAt = "?oat" + sfx
		}
		return append(append([]bq.Clause{}, cs...), c), true
	}
	c.P = bq.PBdB([]string{"p", "q"}[rng.Intn(2)], lo, hi)
	if rng.Intn(2) == 0 {
		c.PAt = "?pat" + sfx
	}
	return append(append([]bq.Clause{}, cs...), c), true
}

// WithEdgeWhitespaceNode copies some triples of /u<a> to a node whose id differs
// by a trailing blank only (/u<a >), in every graph. Ordering such ids is a
// known finding of C12 (KNOWN_FINDINGS.txt), so only checks that do not judge
// the order of ID strings use this.
func WithEdgeWhitespaceNode(rng *rand.Rand, d bq.Data) bq.Data {
	res := bq.Data{}
	twin := MustNode("/u", "a ")
	for g, ts := range d {
		out := append([]*triple.Triple{}, ts...)
		seen := map[string]bool{}
		for _, t := range ts {
			seen[cv.Triple(t)] = true
		}
		for _, t := range ts {
			if cv.Node(t.Subject()) == cv.Node(VNodes[0]) && rng.Intn(2) == 0 {
				if c := MustTriple(twin, t.Predicate(), t.Object()); !seen[cv.Triple(c)] {
					seen[cv.Triple(c)] = true
					out = append(out, c)
				}
			}
		}
		res[g] = out
	}
	return res
}
