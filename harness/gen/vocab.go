package gen

import (
	"bwverif/cv"
	"math"
	"math/rand"
	"time"

	"github.com/google/badwolf/triple"
	"github.com/google/badwolf/triple/literal"
	"github.com/google/badwolf/triple/node"
	"github.com/google/badwolf/triple/predicate"
)

// The shared, deliberately boring vocabulary (DESIGN.md §2).
var (
	T1 = time.Date(2015, 1, 1, 0, 0, 0, 0, time.UTC)
	T2 = time.Date(2016, 6, 15, 12, 30, 0, 0, time.UTC)
	T3 = time.Date(2017, 12, 31, 23, 59, 59, 500000000, time.UTC)
	// T2Z is T2 rendered in +01:00 (same instant).
	T2Z = T2.In(time.FixedZone("", 3600))
	// T0 / T4 lie outside [T1, T3].
	T0 = time.Date(2014, 1, 1, 0, 0, 0, 0, time.UTC)
	T4 = time.Date(2019, 1, 1, 0, 0, 0, 0, time.UTC)
)

// TFarFuture / TFarPast lie outside the range of int64 nanoseconds since 1970
// (1677-09-21 .. 2262-04-11) but are perfectly good time.Time values.
var (
	TFarFuture = time.Date(2300, 1, 1, 0, 0, 0, 0, time.UTC)
	TFarPast   = time.Date(1600, 1, 1, 0, 0, 0, 0, time.UTC)
)

// Times lists the vocabulary instants.
var Times = []time.Time{T1, T2, T3}

// VNodes are the vocabulary nodes.
var VNodes = []*node.Node{
	MustNode("/u", "a"), MustNode("/u", "b"), MustNode("/u", "c"), MustNode("/u/x", "a"), MustNode("/t", "a"), MustNode("/t", "a b"),
}

// AbsentNode never occurs in generated data.
var AbsentNode = MustNode("/u", "zz")

// VPredIDs are the vocabulary predicate ids.
var VPredIDs = []string{"p", "q", "_r"}

// VPreds lists every vocabulary predicate: each id immutable and temporal at
// T1, T2, T3 (T2 also spelled in +01:00, which is the same predicate).
func VPreds() []*predicate.Predicate {
	var res []*predicate.Predicate
	for _, id := range VPredIDs {
		res = append(res, MustImm(id), MustTemp(id, T1), MustTemp(id, T2), MustTemp(id, T3))
	}
	return res
}

// VLits are the vocabulary literals.
var VLits = []*literal.Literal{
	MustLit(literal.Int64, int64(-7)), MustLit(literal.Int64, int64(-3)), MustLit(literal.Int64, int64(0)), MustLit(literal.Int64, int64(5)), MustLit(literal.Int64, int64(12)),
	MustLit(literal.Float64, -2.5), MustLit(literal.Float64, 0.25), MustLit(literal.Float64, 3.0),
	MustLit(literal.Text, "abc"), MustLit(literal.Text, "ab"), MustLit(literal.Text, "b c"),
	MustLit(literal.Bool, true), MustLit(literal.Bool, false),
	MustLit(literal.Blob, []byte{1, 2, 250}),
}

// VObjects lists vocabulary objects: nodes, literals and predicate objects.
func VObjects() []*triple.Object {
	var res []*triple.Object
	for _, n := range VNodes {
		res = append(res, triple.NewNodeObject(n))
	}
	for _, l := range VLits {
		res = append(res, triple.NewLiteralObject(l))
	}
	for _, p := range []*predicate.Predicate{MustImm("p"), MustTemp("p", T1), MustTemp("p", T2), MustTemp("q", T3), MustImm("_r")} {
		res = append(res, triple.NewPredicateObject(p))
	}
	return res
}

// VTriple draws a random vocabulary triple. zoneVar, when true, sometimes
// spells T2 in +01:00.
func VTriple(rng *rand.Rand, zoneVar bool) *triple.Triple {
	ps := VPreds()
	os := VObjects()
	p := ps[rng.Intn(len(ps))]
	if zoneVar && rng.Intn(3) == 0 {
		if ta, err := p.TimeAnchor(); err == nil && ta.Equal(T2) {
			p = MustTemp(string(p.ID()), T2Z)
		}
	}
	o := os[rng.Intn(len(os))]
	if zoneVar && rng.Intn(3) == 0 {
		if op, err := o.Predicate(); err == nil {
			if ta, err := op.TimeAnchor(); err == nil && ta.Equal(T2) {
				o = triple.NewPredicateObject(MustTemp(string(op.ID()), T2Z))
			}
		}
	}
	return MustTriple(VNodes[rng.Intn(len(VNodes))], p, o)
}

// Universe draws n distinct vocabulary triples that deliberately share
// subjects, predicate ids (immutable and temporal) and objects.
func Universe(rng *rand.Rand, n int) []*triple.Triple {
	seen := map[string]bool{}
	var res []*triple.Triple
	// restrict to a few subjects / ids / objects so that buckets are shared
	ns := []*node.Node{VNodes[rng.Intn(3)], VNodes[3+rng.Intn(3)]}
	ids := []string{VPredIDs[rng.Intn(3)], VPredIDs[rng.Intn(3)]}
	os := VObjects()
	objs := []*triple.Object{os[rng.Intn(len(os))], os[rng.Intn(len(os))], os[rng.Intn(len(os))], triple.NewNodeObject(ns[0])}
	if rng.Intn(3) == 0 {
		// objects that only differ beyond float32 / float64 / six-decimal precision:
		// different triples that a lossy rendering would conflate
		near := [][2]*literal.Literal{
			{MustLit(literal.Float64, 20.25), MustLit(literal.Float64, 20.250000001)},
			{MustLit(literal.Int64, int64(9007199254740992)), MustLit(literal.Int64, int64(9007199254740993))},
			{MustLit(literal.Float64, 1.0000001), MustLit(literal.Float64, 1.0000002)},
			{MustLit(literal.Text, "a"), MustLit(literal.Text, "a ")},
		}[rng.Intn(4)]
		objs = append(objs, triple.NewLiteralObject(near[0]), triple.NewLiteralObject(near[1]))
	}
	for tries := 0; len(res) < n && tries < 1000; tries++ {
		id := ids[rng.Intn(len(ids))]
		var p *predicate.Predicate
		switch rng.Intn(5) {
		case 0, 1:
			p = MustImm(id)
		case 2:
			p = MustTemp(id, T1)
		case 3:
			p = MustTemp(id, T2)
		default:
			p = MustTemp(id, T3)
		}
		if rng.Intn(12) == 0 {
			p = MustTemp(id, []time.Time{TFarFuture, TFarPast}[rng.Intn(2)])
		}
		t := MustTriple(ns[rng.Intn(len(ns))], p, objs[rng.Intn(len(objs))])
		// distinctness is decided on the accessor-based canonical form, never on
		// the printed form of the code under observation
		k := cv.Triple(t)
		if !seen[k] {
			seen[k] = true
			res = append(res, t)
		}
	}
	return res
}

// Respell returns the same triple with T2 anchors spelled in +01:00 (or the
// triple itself when it has no T2 anchor).
func Respell(t *triple.Triple) *triple.Triple {
	p, o := t.Predicate(), t.Object()
	if ta, err := p.TimeAnchor(); err == nil && ta.Equal(T2) {
		p = MustTemp(string(p.ID()), T2Z)
	}
	if op, err := o.Predicate(); err == nil {
		if ta, err := op.TimeAnchor(); err == nil && ta.Equal(T2) {
			o = triple.NewPredicateObject(MustTemp(string(op.ID()), T2Z))
		}
	}
	return MustTriple(t.Subject(), p, o)
}

// ExtremeLits are numeric literals that collide when handled as float64 or as
// six-decimal text: neighbours above 2^53, the ends of the int64 range, floats
// that agree to six decimals.
var ExtremeLits = []*literal.Literal{
	MustLit(literal.Int64, int64(9007199254740992)), MustLit(literal.Int64, int64(9007199254740993)),
	MustLit(literal.Int64, int64(math.MaxInt64)), MustLit(literal.Int64, int64(math.MaxInt64-1)),
	MustLit(literal.Int64, int64(math.MinInt64)), MustLit(literal.Int64, int64(math.MinInt64+1)),
	MustLit(literal.Float64, 1.0000001), MustLit(literal.Float64, 1.0000002), MustLit(literal.Float64, 1e32), MustLit(literal.Float64, -1e-9),
	// distinct floats closer than any plausible "tolerance"
	MustLit(literal.Float64, 1e-10), MustLit(literal.Float64, 2e-10), MustLit(literal.Float64, -4e-10), MustLit(literal.Float64, 1.0000000001), MustLit(literal.Float64, 1.0000000002),
	MustLit(literal.Float64, 1e-300), MustLit(literal.Float64, 2e-300),
}
