// Package cv projects badwolf values into canonical, kind-tagged strings using
// accessors only (never UUID() or String()), so that oracles have an identity
// that is independent of the code under observation.
package cv

import (
	"encoding/hex"
	"fmt"
	"math"
	"sort"
	"strconv"
	"strings"
	"time"

	"github.com/google/badwolf/bql/table"
	"github.com/google/badwolf/triple"
	"github.com/google/badwolf/triple/literal"
	"github.com/google/badwolf/triple/node"
	"github.com/google/badwolf/triple/predicate"
)

// Null is the canonical NULL cell.
const Null = "NULL"

// Node canonicalises a node.
func Node(n *node.Node) string {
	if n == nil {
		return "N|<nil>"
	}
	t, id := "<nil>", "<nil>"
	if n.Type() != nil {
		t = string(*n.Type())
	}
	if n.ID() != nil {
		id = string(*n.ID())
	}
	return "N|" + strconv.Quote(t) + "|" + strconv.Quote(id)
}

// Pred canonicalises a predicate: id, kind and instant (zone ignored).
func Pred(p *predicate.Predicate) string {
	if p == nil {
		return "P|<nil>"
	}
	if p.Type() == predicate.Immutable {
		return "P|i|" + strconv.Quote(string(p.ID()))
	}
	ta, err := p.TimeAnchor()
	if err != nil || ta == nil {
		return "P|t|" + strconv.Quote(string(p.ID())) + "|<noanchor>"
	}
	return "P|t|" + strconv.Quote(string(p.ID())) + "|" + Instant(*ta)
}

// Instant renders a time as seconds.nanoseconds since the epoch (zone-free,
// valid for the whole time.Time range).
func Instant(t time.Time) string {
	return strconv.FormatInt(t.Unix(), 10) + "." + fmt.Sprintf("%09d", t.Nanosecond())
}

// Lit canonicalises a literal by type and value.
func Lit(l *literal.Literal) string {
	if l == nil {
		return "L|<nil>"
	}
	switch v := l.Interface().(type) {
	case bool:
		return "L|" + l.Type().String() + "|" + strconv.FormatBool(v)
	case int64:
		return "L|" + l.Type().String() + "|" + strconv.FormatInt(v, 10)
	case float64:
		return "L|" + l.Type().String() + "|" + strconv.FormatUint(math.Float64bits(v), 16)
	case string:
		return "L|" + l.Type().String() + "|" + strconv.Quote(v)
	case []byte:
		return "L|" + l.Type().String() + "|" + hex.EncodeToString(v)
	default:
		return fmt.Sprintf("L|%s|?%T", l.Type(), v)
	}
}

// Obj canonicalises an object; an object boxing nothing or more than one value
// is rendered as malformed.
func Obj(o *triple.Object) string {
	if o == nil {
		return "O|<nil>"
	}
	var parts []string
	if n, err := o.Node(); err == nil && n != nil {
		parts = append(parts, Node(n))
	}
	if p, err := o.Predicate(); err == nil && p != nil {
		parts = append(parts, Pred(p))
	}
	if l, err := o.Literal(); err == nil && l != nil {
		parts = append(parts, Lit(l))
	}
	if len(parts) != 1 {
		return "O|malformed(" + strings.Join(parts, "&") + ")"
	}
	return parts[0]
}

// Triple canonicalises a triple.
func Triple(t *triple.Triple) string {
	if t == nil {
		return "T3|<nil>"
	}
	return Node(t.Subject()) + "\x1f" + Pred(t.Predicate()) + "\x1f" + Obj(t.Object())
}

// Cell canonicalises a table cell; exactly one field may be set.
func Cell(c *table.Cell) string {
	if c == nil {
		return Null
	}
	var parts []string
	if c.S != nil {
		parts = append(parts, "S|"+strconv.Quote(*c.S))
	}
	if c.N != nil {
		parts = append(parts, Node(c.N))
	}
	if c.P != nil {
		parts = append(parts, Pred(c.P))
	}
	if c.L != nil {
		parts = append(parts, Lit(c.L))
	}
	if c.T != nil {
		parts = append(parts, "T|"+Instant(*c.T))
	}
	switch len(parts) {
	case 0:
		return Null
	case 1:
		return parts[0]
	}
	return "CELL|malformed(" + strings.Join(parts, "&") + ")"
}

// Time canonicalises a time value as a cell would hold it.
func Time(t time.Time) string { return "T|" + Instant(t) }

// Str canonicalises a string cell.
func Str(s string) string { return "S|" + strconv.Quote(s) }

// Row canonicalises a row over the given bindings (a missing binding is NULL).
func Row(r table.Row, bs []string) string {
	parts := make([]string, len(bs))
	for i, b := range bs {
		c, ok := r[b]
		if !ok {
			parts[i] = Null
		} else {
			parts[i] = Cell(c)
		}
	}
	return strings.Join(parts, "\x1e")
}

// Rows canonicalises a table into a sorted multiset of rows.
func Rows(t *table.Table, bs []string) []string {
	var res []string
	for _, r := range t.Rows() {
		res = append(res, Row(r, bs))
	}
	sort.Strings(res)
	return res
}

// Show renders a canonical string readably (separators replaced).
func Show(s string) string {
	s = strings.ReplaceAll(s, "\x1f", "  ")
	return strings.ReplaceAll(s, "\x1e", " ; ")
}

// MultisetDiff returns elements (with multiplicity) only in a and only in b.
// Both inputs must be sorted.
func MultisetDiff(a, b []string) (onlyA, onlyB []string) {
	i, j := 0, 0
	for i < len(a) && j < len(b) {
		switch {
		case a[i] == b[j]:
			i++
			j++
		case a[i] < b[j]:
			onlyA = append(onlyA, a[i])
			i++
		default:
			onlyB = append(onlyB, b[j])
			j++
		}
	}
	onlyA = append(onlyA, a[i:]...)
	onlyB = append(onlyB, b[j:]...)
	return
}

// Dedup returns the sorted set of a sorted multiset.
func Dedup(a []string) []string {
	var res []string
	for i, s := range a {
		if i == 0 || s != a[i-1] {
			res = append(res, s)
		}
	}
	return res
}
