module bwverif

go 1.24

require (
	github.com/anishathalye/porcupine v1.3.0
	github.com/google/badwolf v0.0.0
)

require (
	github.com/google/uuid v1.6.0 // indirect
	github.com/pborman/uuid v1.2.1 // indirect
	golang.org/x/sync v0.14.0 // indirect
)

replace github.com/google/badwolf => /repo
