// Package lin records client-boundary histories and checks them with
// porcupine against small sequential models (DESIGN.md Appendix C).
package lin

import (
	"fmt"
	"sort"
	"strings"
	"sync"
	"sync/atomic"
	"time"

	"bwverif/ref"

	"github.com/anishathalye/porcupine"
	"github.com/google/badwolf/storage"
	"github.com/google/badwolf/triple"
)

// Clock is one monotonic clock per history.
type Clock struct {
	start time.Time
	last  int64
}

// NewClock starts a clock.
func NewClock() *Clock { return &Clock{start: time.Now()} }

// Now returns strictly increasing nanoseconds.
func (c *Clock) Now() int64 {
	for {
		n := time.Since(c.start).Nanoseconds()
		l := atomic.LoadInt64(&c.last)
		if n <= l {
			n = l + 1
		}
		if atomic.CompareAndSwapInt64(&c.last, l, n) {
			return n
		}
	}
}

// Op kinds of the graph model.
const (
	OpAdd = iota
	OpRem1
	OpExist
	OpLookup
)

// GIn is the input of a graph operation.
type GIn struct {
	Kind int
	Mask uint64 // add: batch; rem1 / exist: one bit
	Q    int    // lookup: index into the history's query table
}

// GraphSpec describes one history's universe and lookup table.
type GraphSpec struct {
	Universe []*triple.Triple
	Queries  []ref.Query
	Options  []*storage.LookupOptions // per query
	mu       sync.Mutex
	memo     map[[2]uint64]string
}

// Expected returns the reference result of query q in the given state.
func (s *GraphSpec) Expected(q int, state uint64) string {
	key := [2]uint64{uint64(q), state}
	s.mu.Lock()
	if v, ok := s.memo[key]; ok {
		s.mu.Unlock()
		return v
	}
	s.mu.Unlock()
	var ts []*triple.Triple
	for i, t := range s.Universe {
		if state&(1<<uint(i)) != 0 {
			ts = append(ts, t)
		}
	}
	res, isErr := ref.Lookup(ts, s.Queries[q], s.Options[q])
	v := strings.Join(res, "\x1c")
	if isErr {
		v = "<error>"
	}
	s.mu.Lock()
	if s.memo == nil {
		s.memo = map[[2]uint64]string{}
	}
	s.memo[key] = v
	s.mu.Unlock()
	return v
}

// GraphModel is the sequential model of one graph: a set of triples.
func GraphModel(spec *GraphSpec) porcupine.Model {
	return porcupine.Model{
		Init: func() interface{} { return uint64(0) },
		Step: func(st, in, out interface{}) (bool, interface{}) {
			s := st.(uint64)
			i := in.(GIn)
			switch i.Kind {
			case OpAdd:
				return true, s | i.Mask
			case OpRem1:
				return true, s &^ i.Mask
			case OpExist:
				want := "f"
				if s&i.Mask != 0 {
					want = "t"
				}
				return out.(string) == want, s
			default:
				return out.(string) == spec.Expected(i.Q, s), s
			}
		},
		Equal: func(a, b interface{}) bool { return a.(uint64) == b.(uint64) },
		DescribeOperation: func(in, out interface{}) string {
			i := in.(GIn)
			switch i.Kind {
			case OpAdd:
				return fmt.Sprintf("add(%b)", i.Mask)
			case OpRem1:
				return fmt.Sprintf("remove(%b)", i.Mask)
			case OpExist:
				return fmt.Sprintf("exist(%b)->%v", i.Mask, out)
			}
			o := out.(string)
			n := 0
			if o != "" {
				n = strings.Count(o, "\x1c") + 1
			}
			// which universe triples the result stands for is what matters when a
			// history is read by hand: show the states that would explain it
			return fmt.Sprintf("%s->%d results {%s}", spec.Queries[i.Q], n, strings.ReplaceAll(o, "\x1c", " | "))
		},
		DescribeState: func(st interface{}) string { return fmt.Sprintf("%b", st.(uint64)) },
	}
}

// Store model: a set of names.
const (
	SNew = iota
	SGet
	SDrop
	SNames
)

// SIn is the input of a store operation.
type SIn struct {
	Kind int
	Name int // bit index
}

// StoreModel is the sequential model of the store's graph registry.
func StoreModel() porcupine.Model {
	return porcupine.Model{
		Init: func() interface{} { return uint64(0) },
		Step: func(st, in, out interface{}) (bool, interface{}) {
			s := st.(uint64)
			i := in.(SIn)
			bit := uint64(1) << uint(i.Name)
			o := out.(string)
			switch i.Kind {
			case SNew:
				if s&bit == 0 {
					return o == "ok", s | bit
				}
				return o == "err", s
			case SGet:
				if s&bit != 0 {
					return o == "ok", s
				}
				return o == "err", s
			case SDrop:
				if s&bit != 0 {
					return o == "ok", s &^ bit
				}
				return o == "err", s
			default:
				return o == fmt.Sprintf("%b", s), s
			}
		},
		Equal: func(a, b interface{}) bool { return a.(uint64) == b.(uint64) },
		DescribeOperation: func(in, out interface{}) string {
			i := in.(SIn)
			return fmt.Sprintf("%s(%d)->%v", []string{"new", "get", "drop", "names"}[i.Kind], i.Name, out)
		},
		DescribeState: func(st interface{}) string { return fmt.Sprintf("%b", st.(uint64)) },
	}
}

// Recorder collects operations per client without extra synchronisation
// between clients.
type Recorder struct {
	Clock *Clock
	mu    sync.Mutex
	ops   []porcupine.Operation
}

// NewRecorder creates a recorder.
func NewRecorder() *Recorder { return &Recorder{Clock: NewClock()} }

// ClientLog is one client's private log.
type ClientLog struct {
	id  int
	rec *Recorder
	ops []porcupine.Operation
}

// Client returns a private log for client id.
func (r *Recorder) Client(id int) *ClientLog { return &ClientLog{id: id, rec: r} }

// Do records call, runs f, records return. f returns the inputs/outputs of the
// logical operations the call stands for (a k-triple remove is k operations
// sharing the interval).
func (c *ClientLog) Do(f func() ([]interface{}, []interface{})) {
	call := c.rec.Clock.Now()
	ins, outs := f()
	ret := c.rec.Clock.Now()
	for i := range ins {
		c.ops = append(c.ops, porcupine.Operation{ClientId: c.id, Input: ins[i], Output: outs[i], Call: call, Return: ret})
	}
}

// Flush merges the client's log into the recorder.
func (c *ClientLog) Flush() {
	c.rec.mu.Lock()
	c.rec.ops = append(c.rec.ops, c.ops...)
	c.rec.mu.Unlock()
}

// Ops returns the merged history.
func (r *Recorder) Ops() []porcupine.Operation {
	r.mu.Lock()
	defer r.mu.Unlock()
	ops := append([]porcupine.Operation{}, r.ops...)
	sort.Slice(ops, func(i, j int) bool { return ops[i].Call < ops[j].Call })
	return ops
}

// Overlaps counts pairs of operations whose intervals overlap.
func Overlaps(ops []porcupine.Operation) int {
	n := 0
	for i := range ops {
		for j := i + 1; j < len(ops); j++ {
			if ops[j].Call > ops[i].Return {
				break
			}
			if ops[i].ClientId != ops[j].ClientId {
				n++
			}
		}
	}
	return n
}

// Describe renders a history compactly for witnesses.
func Describe(m porcupine.Model, ops []porcupine.Operation) []string {
	var res []string
	for _, o := range ops {
		res = append(res, fmt.Sprintf("c%d [%d,%d] %s", o.ClientId, o.Call, o.Return, m.DescribeOperation(o.Input, o.Output)))
	}
	return res
}
