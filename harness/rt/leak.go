package rt

import (
	"fmt"
	"strings"
	"time"
)

// GSnap is a set of goroutine ids.
type GSnap map[int]bool

// Snapshot returns the ids of all goroutines alive now.
func Snapshot() GSnap {
	s := GSnap{}
	for _, g := range ParseStacks(AllStacks()) {
		s[g.ID] = true
	}
	return s
}

func engineStarted(g Goroutine) bool {
	i := strings.LastIndex(g.Stack, "created by ")
	if i < 0 {
		return false
	}
	return strings.HasPrefix(g.Stack[i+len("created by "):], "github.com/google/badwolf/")
}

// Leaked waits (at most settle) for the goroutines that were started by
// badwolf code since the snapshot to finish and returns the survivors.
func Leaked(before GSnap, settle time.Duration) []Goroutine {
	start := time.Now()
	deadline := start.Add(settle)
	wait := 200 * time.Microsecond
	lastSig, stableSince := "", time.Time{}
	for {
		var left []Goroutine
		sig := ""
		allBlocked := true
		for _, g := range ParseStacks(AllStacks()) {
			if before[g.ID] || !engineStarted(g) {
				continue
			}
			left = append(left, g)
			st := strings.SplitN(g.State, ",", 2)[0]
			sig += fmt.Sprintf("%d:%s;", g.ID, st)
			switch st {
			case "chan send", "chan receive", "select", "semacquire", "sync.Mutex.Lock", "sync.RWMutex.Lock", "sync.RWMutex.RLock", "sync.WaitGroup.Wait", "sync.Cond.Wait":
			default:
				allBlocked = false
			}
		}
		if len(left) == 0 {
			return nil
		}
		now := time.Now()
		if sig != lastSig || !allBlocked {
			lastSig, stableSince = sig, now
		}
		// the same goroutines, all blocked, for 250 ms: nothing will wake them
		if allBlocked && now.Sub(stableSince) > 250*time.Millisecond {
			return left
		}
		if now.After(deadline) {
			if allBlocked {
				return left
			}
			// some survivors are still running or runnable (a loaded machine):
			// they are making progress, give them up to 15 s in total, then only
			// report the ones that are blocked
			if now.Sub(start) < 15*time.Second {
				time.Sleep(20 * time.Millisecond)
				continue
			}
			var blocked []Goroutine
			for _, g := range left {
				switch strings.SplitN(g.State, ",", 2)[0] {
				case "chan send", "chan receive", "select", "semacquire", "sync.Mutex.Lock", "sync.RWMutex.Lock", "sync.RWMutex.RLock", "sync.WaitGroup.Wait", "sync.Cond.Wait":
					blocked = append(blocked, g)
				}
			}
			return blocked
		}
		time.Sleep(wait)
		if wait < 10*time.Millisecond {
			wait *= 2
		}
	}
}

// LeakClass builds a stable key for a leaked goroutine: its innermost badwolf
// frame.
func LeakClass(g Goroutine) string {
	if m := frameRe.FindStringSubmatch(g.Stack); m != nil {
		return CleanFrame(m[1])
	}
	return "?"
}
