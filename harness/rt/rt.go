// Package rt is the runtime of the verification harness: phases made of
// indexed cases, worker processes with journals and watchdogs, aggregation of
// what the monitors observed, known-findings attribution, evidence and replay
// files.
package rt

import (
	"bufio"
	"bytes"
	"encoding/json"
	"fmt"
	"hash/fnv"
	"os"
	"os/exec"
	"path/filepath"
	"regexp"
	"runtime"
	"sort"
	"strconv"
	"strings"
	"sync"
	"syscall"
	"time"
)

// Root of the verification tree (the directory of the check script).
var Root = func() string {
	if r := os.Getenv("VERIF_ROOT"); r != "" {
		return r
	}
	return "/verif"
}()

// Phase is a list of N independent cases. Run(i, r) must be a pure function of
// (tier, seed, i) apart from the system under observation.
type Phase struct {
	Name string
	N    int
	// Race selects the race-instrumented worker binary.
	Race bool
	// Procs, when > 0, sets GOMAXPROCS of the workers of this phase.
	Procs int
	// Workers overrides the number of worker processes (default: 16, or fewer
	// when N is small).
	Workers int
	// Exhaustive marks a phase that enumerates a finite space completely.
	Exhaustive bool
	// SoftSec / HardSec override the per-case watchdog (defaults 5 / 120).
	SoftSec, HardSec int
	Run              func(i int, r *Rec)
}

// Check describes one property check.
type Check struct {
	ID     string
	Level  string // evidence "level"
	Rule   string // how cases are generated and what is non-trivial
	Assume []string
	// Floor is the minimal number of distinct non-trivial cases below which the
	// run is INCONCLUSIVE (exit 2).
	Floor  int
	Phases func(tier string, seed int64) []Phase
}

// Viol is one observed violation.
type Viol struct {
	Key     string      `json:"key"`
	What    string      `json:"what"`
	Phase   string      `json:"phase"`
	Case    int         `json:"case"`
	Witness interface{} `json:"witness,omitempty"`
}

// Rec receives what one case observed. It is used from the goroutine that runs
// the case only, except where noted.
type Rec struct {
	mu      sync.Mutex
	phase   string
	idx     int
	Evals   int64               `json:"e,omitempty"`
	NTHash  []uint64            `json:"h,omitempty"`
	NTCount int64               `json:"n,omitempty"`
	Counts  map[string]int64    `json:"c,omitempty"`
	Sets    map[string][]uint64 `json:"s,omitempty"`
	Viols   []Viol              `json:"v,omitempty"`
	Samples []interface{}       `json:"x,omitempty"`
	Incon   []string            `json:"i,omitempty"`
	perKey  map[string]int
	journal *os.File
	cur     string
	beat    time.Time
}

// Eval counts n executed evaluations.
func (r *Rec) Eval(n int) { r.mu.Lock(); r.Evals += int64(n); r.mu.Unlock() }

// Nontrivial records a non-trivial case identified by the hash of s; the parent
// counts distinct hashes.
func (r *Rec) Nontrivial(s string) {
	r.mu.Lock()
	r.NTHash = append(r.NTHash, Hash(s))
	r.mu.Unlock()
}

// NontrivialDistinct counts n non-trivial cases that are distinct by
// construction (enumerated without repetition).
func (r *Rec) NontrivialDistinct(n int) { r.mu.Lock(); r.NTCount += int64(n); r.mu.Unlock() }

// Count adds n to a named monitor counter.
func (r *Rec) Count(name string, n int) {
	r.mu.Lock()
	if r.Counts == nil {
		r.Counts = map[string]int64{}
	}
	r.Counts[name] += int64(n)
	r.mu.Unlock()
}

// Distinct records membership of s in the named set; the evidence reports the
// number of distinct members seen ("distinct_<name>").
func (r *Rec) Distinct(name, s string) {
	r.mu.Lock()
	if r.Sets == nil {
		r.Sets = map[string][]uint64{}
	}
	r.Sets[name] = append(r.Sets[name], Hash(s))
	r.mu.Unlock()
}

// Sample offers a sample case for the evidence file (the parent keeps a few).
func (r *Rec) Sample(x interface{}) {
	r.mu.Lock()
	if len(r.Samples) < 2 {
		r.Samples = append(r.Samples, x)
	}
	r.mu.Unlock()
}

// Inconclusive records an inconclusive sub-result.
func (r *Rec) Inconclusive(why string) {
	r.mu.Lock()
	if len(r.Incon) < 50 {
		r.Incon = append(r.Incon, why)
	}
	r.mu.Unlock()
	r.Count("inconclusive", 1)
}

// Violation records a violation with a deterministic key.
func (r *Rec) Violation(key, what string, witness interface{}) {
	r.mu.Lock()
	// the cap is per key: many violations of one class (a known finding, say)
	// must never crowd out a violation of another class in the same case
	if r.perKey == nil {
		r.perKey = map[string]int{}
	}
	r.perKey[key]++
	switch n := r.perKey[key]; {
	case n == 1:
		r.Viols = append(r.Viols, Viol{Key: key, What: what, Phase: r.phase, Case: r.idx, Witness: witness})
	case n <= 50 && len(r.Viols) < 5000:
		// further occurrences are only counted
		r.Viols = append(r.Viols, Viol{Key: key, What: what, Phase: r.phase, Case: r.idx})
	}
	r.mu.Unlock()
}

// Begin journals the sub-input that is about to be executed, durably, so that
// a process death can be attributed to it.
func (r *Rec) Begin(desc string) {
	r.mu.Lock()
	r.cur = desc
	r.beat = time.Now()
	r.mu.Unlock()
	if r.journal != nil {
		r.journal.WriteString("S " + strconv.Quote(desc) + "\n")
	}
}

// Note remembers the current sub-input in memory only (for recoverable panics).
func (r *Rec) Note(desc string) { r.mu.Lock(); r.cur = desc; r.beat = time.Now(); r.mu.Unlock() }

// lastBeat returns when the case last announced a sub-input.
func (r *Rec) lastBeat() time.Time { r.mu.Lock(); defer r.mu.Unlock(); return r.beat }

// Cur returns the current sub-input.
func (r *Rec) Cur() string { r.mu.Lock(); defer r.mu.Unlock(); return r.cur }

// Hash is the 64-bit FNV-1a hash used for distinctness.
func Hash(s string) uint64 {
	h := fnv.New64a()
	h.Write([]byte(s))
	return h.Sum64()
}

// ---------------------------------------------------------------------------
// worker side

type workerMsg struct {
	Kind  string `json:"k"` // "case", "done", "deadlock", "hang"
	Idx   int    `json:"idx"`
	Rec   *Rec   `json:"rec,omitempty"`
	Stack string `json:"stack,omitempty"`
	Desc  string `json:"desc,omitempty"`
}

var outMu sync.Mutex

func emit(w *bufio.Writer, m workerMsg) {
	b, err := json.Marshal(m)
	if err != nil {
		b, _ = json.Marshal(workerMsg{Kind: "case", Idx: m.Idx, Rec: &Rec{Viols: []Viol{{Key: "harness/marshal", What: err.Error()}}}})
	}
	outMu.Lock()
	w.Write(b)
	w.WriteByte('\n')
	w.Flush()
	outMu.Unlock()
}

// RunWorker executes cases i ≡ k (mod n), i ≥ from, of the given phase and
// streams one JSON line per case to stdout. If only ≥ 0 just that case runs.
func RunWorker(c *Check, phaseName, tier string, seed int64, k, n, from, only int, journalPath string) int {
	var ph *Phase
	for _, p := range c.Phases(tier, seed) {
		if p.Name == phaseName {
			pp := p
			ph = &pp
		}
	}
	if ph == nil {
		fmt.Fprintf(os.Stderr, "unknown phase %q\n", phaseName)
		return 9
	}
	if ph.Procs > 0 {
		runtime.GOMAXPROCS(ph.Procs)
	}
	var jf *os.File
	if journalPath != "" {
		var err error
		jf, err = os.OpenFile(journalPath, os.O_CREATE|os.O_WRONLY|os.O_APPEND, 0o644)
		if err != nil {
			fmt.Fprintln(os.Stderr, err)
			return 9
		}
	}
	out := bufio.NewWriterSize(os.Stdout, 1<<16)
	soft, hard := 5*time.Second, 120*time.Second
	if ph.SoftSec > 0 {
		soft = time.Duration(ph.SoftSec) * time.Second
	}
	if ph.HardSec > 0 {
		hard = time.Duration(ph.HardSec) * time.Second
	}
	// watchdog
	var wmu sync.Mutex
	curIdx, curStart := -1, time.Time{}
	var curRec *Rec
	go func() {
		for {
			time.Sleep(250 * time.Millisecond)
			wmu.Lock()
			idx, st, rec := curIdx, curStart, curRec
			wmu.Unlock()
			if idx < 0 {
				continue
			}
			// the watchdog measures the time since the case last announced a
			// sub-input (Begin/Note), not the duration of the whole batch
			if rec != nil {
				if b := rec.lastBeat(); b.After(st) {
					st = b
				}
			}
			if time.Since(st) < soft {
				continue
			}
			s1 := AllStacks()
			time.Sleep(500 * time.Millisecond)
			wmu.Lock()
			same := curIdx == idx
			wmu.Unlock()
			if !same {
				continue
			}
			s2 := AllStacks()
			desc := ""
			if rec != nil {
				desc = rec.Cur()
			}
			if AllBlocked(s1) && AllBlocked(s2) && blockedSignature(s1) == blockedSignature(s2) {
				emit(out, workerMsg{Kind: "deadlock", Idx: idx, Stack: trimStack(s2), Desc: desc})
				os.Exit(3)
			}
			if time.Since(st) > hard {
				// a hang is a verdict about the code under observation: some
				// goroutine must be inside badwolf code in both snapshots. When
				// only the harness's own code is running (a loaded machine, an
				// expensive oracle) the case is given up as inconclusive.
				kind := "hang"
				if !EngineInvolved(s1) || !EngineInvolved(s2) {
					kind = "slow"
				}
				emit(out, workerMsg{Kind: kind, Idx: idx, Stack: trimStack(s2), Desc: desc})
				os.Exit(4)
			}
		}
	}()
	for i := 0; i < ph.N; i++ {
		if only >= 0 {
			if i != only {
				continue
			}
		} else if i < from || i%n != k {
			continue
		}
		rec := &Rec{phase: ph.Name, idx: i, journal: jf}
		if jf != nil {
			jf.WriteString("B " + strconv.Itoa(i) + "\n")
		}
		wmu.Lock()
		curIdx, curStart, curRec = i, time.Now(), rec
		wmu.Unlock()
		func() {
			defer func() {
				if e := recover(); e != nil {
					st := string(debugStack())
					rec.Violation("panic/"+PanicClass(fmt.Sprint(e), st), fmt.Sprintf("panic in calling goroutine: %v", e),
						map[string]interface{}{"input": rec.Cur(), "stack": trimStack(st)})
				}
			}()
			ph.Run(i, rec)
		}()
		wmu.Lock()
		curIdx = -1
		wmu.Unlock()
		if jf != nil {
			jf.WriteString("E " + strconv.Itoa(i) + "\n")
		}
		emit(out, workerMsg{Kind: "case", Idx: i, Rec: rec})
		if only < 0 && runtime.NumGoroutine() > 50000 {
			// goroutines left behind by the code under observation are piling
			// up (each check reports leaks itself): start over in a fresh process
			emit(out, workerMsg{Kind: "recycle", Idx: i})
			return 0
		}
	}
	emit(out, workerMsg{Kind: "done"})
	return 0
}

func debugStack() []byte {
	buf := make([]byte, 1<<16)
	n := runtime.Stack(buf, false)
	return buf[:n]
}

// AllStacks returns the stacks of all goroutines.
func AllStacks() string {
	buf := make([]byte, 1<<20)
	for {
		n := runtime.Stack(buf, true)
		if n < len(buf) {
			return string(buf[:n])
		}
		buf = make([]byte, 2*len(buf))
	}
}

func trimStack(s string) string {
	if len(s) > 6000 {
		return s[:6000] + "\n...[truncated]"
	}
	return s
}

var goHdr = regexp.MustCompile(`(?m)^goroutine (\d+) \[([^\]]*)\]:`)

// Goroutine is one parsed goroutine of a stack dump.
type Goroutine struct {
	ID    int
	State string
	Stack string
}

// ParseStacks splits a runtime.Stack(all) dump.
func ParseStacks(dump string) []Goroutine {
	var res []Goroutine
	for _, blk := range strings.Split(dump, "\n\n") {
		m := goHdr.FindStringSubmatch(blk)
		if m == nil {
			continue
		}
		id, _ := strconv.Atoi(m[1])
		res = append(res, Goroutine{ID: id, State: m[2], Stack: blk})
	}
	return res
}

// isHarnessInfra recognises goroutines that are always there and never part
// of a case: the worker's watchdog, the runtime's signal goroutines and the two
// permanent badwolf goroutines (blank node id producer, tracer consumer).
func isHarnessInfra(g Goroutine) bool {
	return strings.Contains(g.Stack, "bwverif/rt.RunWorker.func1(") || strings.Contains(g.Stack, "bwverif/rt.AllStacks") ||
		strings.Contains(g.Stack, "os/signal.") || strings.Contains(g.Stack, "runtime.ensureSigM") ||
		strings.Contains(g.Stack, "triple/node.init.0.func1") || strings.Contains(g.Stack, "bql/planner/tracer.init.0.func1")
}

// AllBlocked says whether every goroutine apart from the harness's own
// watchdog is blocked on a channel, select, lock or wait group.
func AllBlocked(dump string) bool {
	gs := ParseStacks(dump)
	any := false
	for _, g := range gs {
		if isHarnessInfra(g) {
			continue
		}
		st := g.State
		if i := strings.Index(st, ","); i >= 0 {
			st = st[:i]
		}
		if strings.Contains(g.Stack, "runtime.Stack(") || strings.Contains(g.Stack, "bwverif/rt.Leaked(") {
			// the case goroutine is inside one of the harness's own monitors
			return false
		}
		switch st {
		case "chan send", "chan receive", "select", "sync.Mutex.Lock", "sync.RWMutex.Lock", "sync.RWMutex.RLock",
			"sync.WaitGroup.Wait", "semacquire", "sync.Cond.Wait", "chan send (nil chan)", "chan receive (nil chan)", "select (no cases)":
			any = true
		default:
			return false
		}
	}
	return any
}

// EngineInvolved says whether some goroutine of a case has a badwolf function as
// its innermost frame outside the Go runtime and standard library.
func EngineInvolved(dump string) bool {
	for _, g := range ParseStacks(dump) {
		if isHarnessInfra(g) {
			continue
		}
		lines := strings.Split(g.Stack, "\n")
		for _, l := range lines[1:] {
			if l == "" || l[0] == '\t' || strings.HasPrefix(l, "created by ") {
				continue
			}
			if strings.HasPrefix(l, "github.com/google/badwolf/") {
				return true
			}
			if strings.HasPrefix(l, "bwverif/") || strings.HasPrefix(l, "main.") || strings.HasPrefix(l, "github.com/anishathalye/") {
				break // innermost frame outside runtime / std belongs to the harness
			}
			// runtime., sync., time., strings., sort. ...: keep looking outwards
		}
	}
	return false
}

func blockedSignature(dump string) string {
	var parts []string
	for _, g := range ParseStacks(dump) {
		if isHarnessInfra(g) {
			continue
		}
		parts = append(parts, fmt.Sprintf("%d:%s", g.ID, strings.SplitN(g.State, ",", 2)[0]))
	}
	sort.Strings(parts)
	return strings.Join(parts, ";")
}

var frameRe = regexp.MustCompile(`github\.com/google/badwolf/([A-Za-z0-9_/\.\(\)\*]+)`)

// CleanFrame strips argument lists from a stack frame name, keeping method
// receivers such as (*T).
func CleanFrame(f string) string {
	for i := 0; i < len(f); i++ {
		if f[i] == '(' && !(i+1 < len(f) && f[i+1] == '*') {
			return f[:i]
		}
	}
	return f
}

// PanicClass builds a stable class for a panic: message class + innermost
// badwolf frame.
func PanicClass(msg, stack string) string {
	cls := msg
	for _, p := range []string{"index out of range", "slice bounds out of range", "nil pointer dereference", "makeslice", "close of closed channel", "send on closed channel", "nil map", "interface conversion", "integer divide by zero"} {
		if strings.Contains(msg, p) {
			cls = strings.ReplaceAll(p, " ", "-")
			break
		}
	}
	if len(cls) > 40 {
		cls = cls[:40]
	}
	fr := "?"
	if m := frameRe.FindStringSubmatch(stack); m != nil {
		fr = CleanFrame(m[1])
	}
	return cls + "@" + fr
}

// ---------------------------------------------------------------------------
// parent side

// Known is one entry of KNOWN_FINDINGS.txt.
type Known struct {
	Kind     string // "known" or "fixed"
	Property string
	Key      string
	Text     string
}

// LoadKnown parses /verif/KNOWN_FINDINGS.txt (read-only).
func LoadKnown() []Known {
	var res []Known
	b, err := os.ReadFile(filepath.Join(Root, "KNOWN_FINDINGS.txt"))
	if err != nil {
		return nil
	}
	for _, ln := range strings.Split(string(b), "\n") {
		ln = strings.TrimSpace(ln)
		if ln == "" || strings.HasPrefix(ln, "#") {
			continue
		}
		var k Known
		switch {
		case strings.HasPrefix(ln, "known:"):
			k.Kind = "known"
			ln = strings.TrimSpace(ln[len("known:"):])
		case strings.HasPrefix(ln, "fixed:"):
			k.Kind = "fixed"
			ln = strings.TrimSpace(ln[len("fixed:"):])
		default:
			continue
		}
		for _, f := range strings.Fields(ln) {
			if strings.HasPrefix(f, "property=") && k.Property == "" {
				k.Property = f[len("property="):]
			} else if strings.HasPrefix(f, "key=") && k.Key == "" {
				k.Key = f[len("key="):]
			}
		}
		k.Text = ln
		res = append(res, k)
	}
	return res
}

// knownText returns the free-text part of a known entry.
func knownText(k *Known) string {
	var fs []string
	for _, f := range strings.Fields(k.Text) {
		if strings.HasPrefix(f, "property=") || strings.HasPrefix(f, "key=") || strings.HasPrefix(f, "witness=") {
			continue
		}
		fs = append(fs, f)
	}
	return strings.Join(fs, " ")
}

func matchKnown(ks []Known, prop, key string) *Known {
	for i := range ks {
		k := &ks[i]
		if k.Kind != "known" || k.Property != prop || k.Key == "" {
			continue
		}
		if k.Key == key || (strings.HasSuffix(k.Key, "*") && strings.HasPrefix(key, k.Key[:len(k.Key)-1])) {
			return k
		}
	}
	return nil
}

type agg struct {
	mu       sync.Mutex
	evals    int64
	nt       map[uint64]struct{}
	ntCount  int64
	counts   map[string]int64
	sets     map[string]map[uint64]struct{}
	viols    map[string]*Viol
	violN    map[string]int
	samples  []interface{}
	incon    []string
	perPhase map[string]int64
}

func (a *agg) add(ph string, r *Rec) {
	a.mu.Lock()
	defer a.mu.Unlock()
	a.evals += r.Evals
	a.perPhase[ph] += r.Evals
	for _, h := range r.NTHash {
		a.nt[h] = struct{}{}
	}
	a.ntCount += r.NTCount
	for k, v := range r.Counts {
		a.counts[k] += v
	}
	for k, hs := range r.Sets {
		m := a.sets[k]
		if m == nil {
			m = map[uint64]struct{}{}
			a.sets[k] = m
		}
		for _, h := range hs {
			m[h] = struct{}{}
		}
	}
	for i := range r.Viols {
		v := r.Viols[i]
		if v.Phase == "" {
			v.Phase = ph
		}
		a.violN[v.Key]++
		if _, ok := a.viols[v.Key]; !ok {
			a.viols[v.Key] = &v
		}
	}
	if len(a.samples) < 6 {
		for _, s := range r.Samples {
			if len(a.samples) < 6 {
				a.samples = append(a.samples, s)
			}
		}
	}
	for _, s := range r.Incon {
		if len(a.incon) < 20 {
			a.incon = append(a.incon, s)
		}
	}
}

func selfPath(race bool) string {
	if race {
		return filepath.Join(Root, "harness", "bin", "bwcheck-race")
	}
	return filepath.Join(Root, "harness", "bin", "bwcheck")
}

var safeRe = regexp.MustCompile(`[^A-Za-z0-9_.@-]+`)

func safeName(s string) string {
	s = safeRe.ReplaceAllString(s, "_")
	if len(s) > 100 {
		s = s[:100] + fmt.Sprintf("_%x", Hash(s)&0xffff)
	}
	return s
}

// runPhase runs one phase over worker processes and aggregates.
func runPhase(c *Check, ph Phase, tier string, seed int64, a *agg, scratch string) {
	nw := ph.Workers
	if nw <= 0 {
		nw = 16
	}
	if nw > ph.N {
		nw = ph.N
	}
	if nw < 1 {
		return
	}
	var wg sync.WaitGroup
	for k := 0; k < nw; k++ {
		wg.Add(1)
		go func(k int) {
			defer wg.Done()
			from := 0
			restarts := 0
			for {
				next, crashed := runOneWorker(c, ph, tier, seed, k, nw, from, a, scratch)
				if !crashed {
					return
				}
				restarts++
				if restarts > 2000 {
					a.mu.Lock()
					a.viols["harness/too-many-crashes/"+ph.Name] = &Viol{Key: "harness/too-many-crashes/" + ph.Name, What: "worker restarted more than 2000 times in one shard", Phase: ph.Name}
					a.violN["harness/too-many-crashes/"+ph.Name]++
					a.mu.Unlock()
					return
				}
				from = next
			}
		}(k)
	}
	wg.Wait()
}

// runOneWorker returns (index to resume from, crashed).
func runOneWorker(c *Check, ph Phase, tier string, seed int64, k, n, from int, a *agg, scratch string) (int, bool) {
	tag := fmt.Sprintf("%s-%s-%d-%d", c.ID, safeName(ph.Name), k, from)
	journal := filepath.Join(scratch, tag+".journal")
	stderrPath := filepath.Join(scratch, tag+".stderr")
	racePrefix := filepath.Join(scratch, tag+".race")
	os.Remove(journal)
	ef, _ := os.Create(stderrPath)
	cmd := exec.Command(selfPath(ph.Race), "-worker", "-id", c.ID, "-phase", ph.Name, "-tier", tier, "-seed", strconv.FormatInt(seed, 10),
		"-k", strconv.Itoa(k), "-n", strconv.Itoa(n), "-from", strconv.Itoa(from), "-journal", journal)
	cmd.Stderr = ef
	cmd.Env = append(os.Environ(), "GOTRACEBACK=all")
	if ph.Race {
		cmd.Env = append(cmd.Env, "GORACE=halt_on_error=0 log_path="+racePrefix)
	}
	stdout, _ := cmd.StdoutPipe()
	if err := cmd.Start(); err != nil {
		a.mu.Lock()
		a.viols["harness/start"] = &Viol{Key: "harness/start", What: err.Error()}
		a.violN["harness/start"]++
		a.mu.Unlock()
		ef.Close()
		return 0, false
	}
	done := false
	recycle := false
	lastIdx := -1
	var special *workerMsg
	sc := bufio.NewScanner(stdout)
	sc.Buffer(make([]byte, 1<<20), 1<<28)
	for sc.Scan() {
		var m workerMsg
		if err := json.Unmarshal(sc.Bytes(), &m); err != nil {
			continue
		}
		switch m.Kind {
		case "case":
			lastIdx = m.Idx
			if m.Rec != nil {
				a.add(ph.Name, m.Rec)
			}
		case "done":
			done = true
		case "recycle":
			recycle = true
		case "deadlock", "hang", "slow":
			mm := m
			special = &mm
		}
	}
	err := cmd.Wait()
	ef.Close()
	// race reports
	if ph.Race {
		collectRaces(a, ph.Name, racePrefix)
	}
	if done && (err == nil || ph.Race) {
		// a race-instrumented worker exits with status 66 when it reported
		// races; the reports have been collected above
		os.Remove(journal)
		os.Remove(stderrPath)
		return 0, false
	}
	if recycle && (err == nil || ph.Race) {
		os.Remove(journal)
		os.Remove(stderrPath)
		a.mu.Lock()
		a.counts["worker_recycled_goroutine_buildup"]++
		a.mu.Unlock()
		nx := lastIdx + n
		if nx >= ph.N {
			return 0, false
		}
		return nx, true
	}
	// crashed: find culprit
	culprit, sub := lastBegin(journal)
	if culprit < 0 {
		culprit = nextIndex(lastIdx, k, n, from)
	}
	tail := tailFile(stderrPath, 8000)
	v := Viol{Phase: ph.Name, Case: culprit}
	if special != nil && special.Kind == "slow" {
		// the harness itself was still working at the hard limit: no verdict
		a.mu.Lock()
		a.counts["inconclusive"]++
		a.incon = append(a.incon, fmt.Sprintf("case %d of %s was still running harness code at the hard watchdog (loaded machine?): %s", culprit, ph.Name, oneLine(firstNonEmpty(special.Desc, sub))))
		a.mu.Unlock()
		os.Remove(journal)
		os.Remove(stderrPath)
		nx := culprit + 1
		for nx%n != k {
			nx++
		}
		if nx >= ph.N {
			return 0, false
		}
		return nx, true
	}
	switch {
	case special != nil && special.Kind == "deadlock":
		v.Key = "deadlock/" + deadlockClass(special.Stack)
		v.What = "all goroutines blocked (two identical snapshots 500ms apart)"
		v.Witness = map[string]interface{}{"input": firstNonEmpty(special.Desc, sub), "stacks": special.Stack}
	case special != nil && special.Kind == "hang":
		v.Key = "hang/" + deadlockClass(special.Stack)
		v.What = "case still running at the hard watchdog"
		v.Witness = map[string]interface{}{"input": firstNonEmpty(special.Desc, sub), "stacks": special.Stack}
	default:
		cls := crashClass(tail)
		v.Key = "crash/" + cls
		v.What = "worker process died: " + firstLine(tail)
		v.Witness = map[string]interface{}{"input": sub, "stderr_tail": tail, "exit": fmt.Sprint(err)}
	}
	a.mu.Lock()
	a.violN[v.Key]++
	if _, ok := a.viols[v.Key]; !ok {
		a.viols[v.Key] = &v
	}
	a.counts["worker_crashes"]++
	a.mu.Unlock()
	os.Remove(journal)
	os.Remove(stderrPath)
	// resume after culprit
	nx := culprit + 1
	for nx%n != k {
		nx++
	}
	if nx >= ph.N {
		return 0, false
	}
	return nx, true
}

func firstNonEmpty(a, b string) string {
	if a != "" {
		return a
	}
	return b
}

func nextIndex(last, k, n, from int) int {
	if last < 0 {
		i := from
		for i%n != k {
			i++
		}
		return i
	}
	return last + n
}

func firstLine(s string) string {
	for _, ln := range strings.Split(s, "\n") {
		if strings.HasPrefix(ln, "panic:") || strings.HasPrefix(ln, "fatal error:") || strings.Contains(ln, "Could not retrieve binding") {
			if len(ln) > 200 {
				ln = ln[:200]
			}
			return ln
		}
	}
	ls := strings.Split(strings.TrimSpace(s), "\n")
	if len(ls) > 0 {
		l := ls[0]
		if len(l) > 200 {
			l = l[:200]
		}
		return l
	}
	return ""
}

func crashClass(tail string) string {
	fl := firstLine(tail)
	msg := fl
	switch {
	case strings.HasPrefix(fl, "panic:"):
		msg = strings.TrimSpace(fl[len("panic:"):])
	case strings.HasPrefix(fl, "fatal error:"):
		msg = "fatal-" + strings.TrimSpace(fl[len("fatal error:"):])
	case strings.Contains(fl, "Could not retrieve binding"):
		return "log.Fatal-rowLess-missing-binding"
	}
	// stack after the first "goroutine N [running]"
	st := tail
	if i := strings.Index(tail, "[running]"); i >= 0 {
		st = tail[i:]
	}
	return PanicClass(msg, st)
}

func deadlockClass(stack string) string {
	seen := map[string]bool{}
	var fr []string
	for _, g := range ParseStacks(stack) {
		if isHarnessInfra(g) {
			continue
		}
		if m := frameRe.FindStringSubmatch(g.Stack); m != nil {
			f := CleanFrame(m[1])
			if !seen[f] {
				seen[f] = true
				fr = append(fr, f)
			}
		}
	}
	sort.Strings(fr)
	if len(fr) > 3 {
		fr = fr[:3]
	}
	return strings.Join(fr, "+")
}

func lastBegin(journal string) (int, string) {
	b, err := os.ReadFile(journal)
	if err != nil {
		return -1, ""
	}
	idx, sub := -1, ""
	open := false
	for _, ln := range strings.Split(string(b), "\n") {
		switch {
		case strings.HasPrefix(ln, "B "):
			idx, _ = strconv.Atoi(ln[2:])
			sub = ""
			open = true
		case strings.HasPrefix(ln, "S "):
			if s, err := strconv.Unquote(ln[2:]); err == nil {
				sub = s
			} else {
				sub = ln[2:]
			}
		case strings.HasPrefix(ln, "E "):
			open = false
		}
	}
	if !open {
		return -1, ""
	}
	return idx, sub
}

func tailFile(p string, n int) string {
	b, err := os.ReadFile(p)
	if err != nil {
		return ""
	}
	// prefer the region starting at the first panic/fatal line
	s := string(b)
	for _, mk := range []string{"panic:", "fatal error:", "Could not retrieve binding"} {
		if i := strings.Index(s, mk); i >= 0 {
			s = s[i:]
			break
		}
	}
	if len(s) > n {
		s = s[:n]
	}
	return s
}

var raceFrame = regexp.MustCompile(`(?m)^\s+(github\.com/google/badwolf/[^\s(]+(?:\([^)]*\))?[^\s(]*)\(`)

func collectRaces(a *agg, phase, prefix string) {
	files, _ := filepath.Glob(prefix + ".*")
	for _, f := range files {
		b, err := os.ReadFile(f)
		os.Remove(f)
		if err != nil {
			continue
		}
		for _, blk := range strings.Split(string(b), "==================") {
			if !strings.Contains(blk, "WARNING: DATA RACE") {
				continue
			}
			// innermost badwolf frame of each of the two accesses
			var fr []string
			parts := regexp.MustCompile(`(?m)^(?:Previous |)(?:[Rr]ead|[Ww]rite|atomic [a-z]+) (?:at|of) .*$`).Split(blk, -1)
			for _, p := range parts[1:] {
				if m := raceFrame.FindStringSubmatch(p); m != nil {
					fr = append(fr, m[1])
				} else {
					fr = append(fr, "?")
				}
				if len(fr) == 2 {
					break
				}
			}
			sort.Strings(fr)
			key := "race/" + strings.Join(fr, "~")
			if !strings.Contains(blk, "github.com/google/badwolf/") {
				key = "harness-race/" + fmt.Sprintf("%x", Hash(regexp.MustCompile(`0x[0-9a-f]+|goroutine \d+`).ReplaceAllString(blk, ""))&0xffff)
			}
			v := Viol{Key: key, What: "data race reported by the Go race detector", Phase: phase, Witness: map[string]interface{}{"report": trimStack(blk)}}
			a.mu.Lock()
			a.violN[key]++
			if _, ok := a.viols[key]; !ok {
				a.viols[key] = &v
			}
			a.counts["race_reports"]++
			a.mu.Unlock()
		}
	}
}

// RunCheck is the parent entry point. It returns the process exit code.
func RunCheck(c *Check, tier string, seed int64) int {
	start := time.Now()
	scratch := filepath.Join(Root, "harness", "scratch")
	os.MkdirAll(scratch, 0o755)
	a := &agg{nt: map[uint64]struct{}{}, counts: map[string]int64{}, sets: map[string]map[uint64]struct{}{}, viols: map[string]*Viol{}, violN: map[string]int{}, perPhase: map[string]int64{}}
	phases := c.Phases(tier, seed)
	// replay files describe this run only
	if old, _ := filepath.Glob(filepath.Join(Root, "replay", c.ID, "*.json")); len(old) > 0 {
		for _, f := range old {
			os.Remove(f)
		}
	}
	exh := len(phases) > 0
	var phaseInfo []map[string]interface{}
	// VERIF_PHASES=a,b restricts a run to the named phases (a development aid:
	// the registered commands never set it; the coverage floor still applies).
	only := map[string]bool{}
	for _, n := range strings.Split(os.Getenv("VERIF_PHASES"), ",") {
		if n != "" {
			only[n] = true
		}
	}
	for _, ph := range phases {
		if len(only) > 0 && !only[ph.Name] {
			continue
		}
		t0 := time.Now()
		runPhase(c, ph, tier, seed, a, scratch)
		if !ph.Exhaustive {
			exh = false
		}
		phaseInfo = append(phaseInfo, map[string]interface{}{"name": ph.Name, "cases": ph.N, "race": ph.Race, "exhaustive": ph.Exhaustive, "evaluations": a.perPhase[ph.Name], "wall_s": round1(time.Since(t0).Seconds())})
	}
	known := LoadKnown()
	// attribute violations
	keys := make([]string, 0, len(a.viols))
	for k := range a.viols {
		keys = append(keys, k)
	}
	sort.Strings(keys)
	nViol := 0
	var knownHit []string
	knownSeen := map[string]int{}
	var out bytes.Buffer
	for _, k := range keys {
		v := a.viols[k]
		rp := filepath.Join(Root, "replay", c.ID, safeName(k)+".json")
		os.MkdirAll(filepath.Dir(rp), 0o755)
		wb, _ := json.MarshalIndent(map[string]interface{}{"property": c.ID, "key": k, "what": v.What, "phase": v.Phase, "case": v.Case, "tier": tier, "seed": seed, "occurrences": a.violN[k], "witness": v.Witness}, "", " ")
		os.WriteFile(rp, wb, 0o644)
		if kn := matchKnown(known, c.ID, k); kn != nil {
			knownHit = append(knownHit, k)
			if knownSeen[kn.Key] == 0 {
				fmt.Fprintf(&out, "KNOWN-FINDING: property=%s key=%s %s [e.g. %s; replay=%s]\n", c.ID, kn.Key, knownText(kn), oneLine(v.What), rp)
			}
			knownSeen[kn.Key] += a.violN[k]
			continue
		}
		nViol++
		fmt.Fprintf(&out, "VIOLATION property=%s replay=%s key=%s %s (seen %d times)\n", c.ID, rp, k, oneLine(v.What), a.violN[k])
	}
	// known entries that were expected but not met are reported (not an error)
	for _, kn := range known {
		if kn.Kind == "known" && kn.Property == c.ID {
			hit := false
			for _, h := range knownHit {
				if kn.Key == h || (strings.HasSuffix(kn.Key, "*") && strings.HasPrefix(h, kn.Key[:len(kn.Key)-1])) {
					hit = true
				}
			}
			if !hit {
				fmt.Fprintf(&out, "NOTE: known finding %s was not met in this run\n", kn.Key)
			}
		}
	}
	nt := int64(len(a.nt)) + a.ntCount
	cov := map[string]interface{}{
		"evaluations":         a.evals,
		"distinct_nontrivial": nt,
		"rule":                c.Rule,
		"samples":             a.samples,
		"exhaustive":          exh,
		"phases":              phaseInfo,
		"inconclusive":        a.counts["inconclusive"],
		"known_findings_hit":  knownHit,
	}
	if len(a.incon) > 0 {
		cov["inconclusive_reasons"] = a.incon
	}
	ck := make([]string, 0, len(a.counts))
	for k := range a.counts {
		ck = append(ck, k)
	}
	sort.Strings(ck)
	mon := map[string]int64{}
	for _, k := range ck {
		mon[k] = a.counts[k]
	}
	for k, m := range a.sets {
		mon["distinct_"+k] = int64(len(m))
	}
	cov["monitors"] = mon
	if len(a.samples) == 0 {
		cov["samples"] = []interface{}{"(no sample recorded)"}
	}
	ev := map[string]interface{}{
		"property_id": c.ID,
		"tier":        tier,
		"seed":        seed,
		"level":       c.Level,
		"coverage":    cov,
		"assumptions": c.Assume,
		"wall_s":      round1(time.Since(start).Seconds()),
		"violations":  nViol,
	}
	eb, _ := json.MarshalIndent(ev, "", " ")
	os.MkdirAll(filepath.Join(Root, "evidence"), 0o755)
	os.WriteFile(filepath.Join(Root, "evidence", c.ID+".json"), eb, 0o644)
	os.Stdout.Write(out.Bytes())
	fmt.Printf("%s %s seed=%d: evaluations=%d distinct_nontrivial=%d violations=%d known=%d inconclusive=%d wall=%.1fs\n",
		c.ID, tier, seed, a.evals, nt, nViol, len(knownHit), a.counts["inconclusive"], time.Since(start).Seconds())
	for _, k := range ck {
		fmt.Printf("  monitor %s=%d\n", k, a.counts[k])
	}
	for k, m := range a.sets {
		fmt.Printf("  monitor distinct_%s=%d\n", k, len(m))
	}
	if nViol > 0 {
		return 1
	}
	if nt < int64(c.Floor) || a.evals == 0 {
		fmt.Printf("INCONCLUSIVE property=%s observed %d distinct non-trivial cases, floor is %d\n", c.ID, nt, c.Floor)
		return 2
	}
	return 0
}

func oneLine(s string) string {
	s = strings.ReplaceAll(s, "\n", " ")
	if len(s) > 300 {
		s = s[:300]
	}
	return s
}

func round1(f float64) float64 { return float64(int64(f*10)) / 10 }

// Replay re-executes the case recorded in a replay file in a fresh worker and
// prints what it reports.
func Replay(c *Check, path string) int {
	b, err := os.ReadFile(path)
	if err != nil {
		fmt.Println(err)
		return 9
	}
	var rp struct {
		Phase string
		Case  int
		Tier  string
		Seed  int64
		Key   string
	}
	if err := json.Unmarshal(b, &rp); err != nil {
		fmt.Println(err)
		return 9
	}
	var ph *Phase
	for _, p := range c.Phases(rp.Tier, rp.Seed) {
		if p.Name == rp.Phase {
			pp := p
			ph = &pp
		}
	}
	if ph == nil {
		fmt.Printf("phase %q not found\n", rp.Phase)
		return 9
	}
	cmd := exec.Command(selfPath(ph.Race), "-worker", "-id", c.ID, "-phase", ph.Name, "-tier", rp.Tier, "-seed", strconv.FormatInt(rp.Seed, 10),
		"-only", strconv.Itoa(rp.Case))
	cmd.Env = append(os.Environ(), "GOTRACEBACK=all")
	var so, se bytes.Buffer
	cmd.Stdout, cmd.Stderr = &so, &se
	err = cmd.Run()
	fmt.Printf("replay of %s phase=%s case=%d (tier=%s seed=%d), recorded key=%s\n", c.ID, rp.Phase, rp.Case, rp.Tier, rp.Seed, rp.Key)
	hit := false
	for _, ln := range strings.Split(so.String(), "\n") {
		var m workerMsg
		if json.Unmarshal([]byte(ln), &m) != nil || m.Rec == nil {
			if m.Kind == "deadlock" || m.Kind == "hang" {
				fmt.Printf("  %s: %s\n", m.Kind, m.Desc)
				hit = true
			}
			continue
		}
		for _, v := range m.Rec.Viols {
			wb, _ := json.Marshal(v.Witness)
			fmt.Printf("  violation key=%s %s\n    witness=%s\n", v.Key, v.What, wb)
			if v.Key == rp.Key {
				hit = true
			}
		}
	}
	if err != nil {
		fmt.Printf("  worker exited: %v\n%s\n", err, tailString(se.String(), 3000))
		hit = true
	}
	if hit {
		fmt.Println("REPRODUCED")
		return 1
	}
	fmt.Println("NOT REPRODUCED (schedule-dependent violations may need several attempts)")
	return 0
}

func tailString(s string, n int) string {
	for _, mk := range []string{"panic:", "fatal error:"} {
		if i := strings.Index(s, mk); i >= 0 {
			s = s[i:]
			break
		}
	}
	if len(s) > n {
		return s[:n]
	}
	return s
}

// Kill is used by tests of the watchdog.
func Kill(pid int) { syscall.Kill(pid, syscall.SIGQUIT) }
