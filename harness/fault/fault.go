// Package fault is a fault-injecting storage.Store / storage.Graph written
// against the driver interface only: it wraps a real store, numbers every
// driver call and makes the k-th one fail in a chosen mode, behaving like a
// well-formed driver otherwise (a lookup closes its channel exactly once and
// then returns the error).
package fault

import (
	"context"
	"errors"
	"fmt"
	"runtime"
	"sync"
	"time"

	"github.com/google/badwolf/storage"
	"github.com/google/badwolf/triple"
	"github.com/google/badwolf/triple/node"
	"github.com/google/badwolf/triple/predicate"
)

// ErrInjected is the injected failure.
var ErrInjected = errors.New("injected driver failure")

// Plan says which call fails and how.
type Plan struct {
	// K is the 1-based position of the driver call that fails (0: none).
	K int
	// After is the number of elements a failing lookup delivers before it
	// fails (0: none).
	After int
	// From, when > 0, makes every driver call from that position on fail (a
	// driver that has gone away), not only the K-th.
	From int
	// During, when set, is called once by the failing call before it fails (a
	// write that goes through the layers above while the lookup is in flight).
	During func()
	// Late makes a failing lookup do some work between closing its channel and
	// returning the error (a driver that releases resources, logs, ...): the
	// consumer sees the channel closed well before the call returns.
	Late bool
}

// Call describes one observed driver call.
type Call struct {
	N      int
	Method string
	Graph  string
}

// Store is the fault-injecting store.
type Store struct {
	inner storage.Store
	plan  Plan

	mu    sync.Mutex
	n     int
	calls []Call
	fired *Call
	// Delivered counts the elements the failing lookup delivered.
	delivered int
}

// New wraps inner.
func New(inner storage.Store, plan Plan) *Store { return &Store{inner: inner, plan: plan} }

// SetDuring installs the During callback after the layers above have been built.
func (s *Store) SetDuring(f func()) { s.mu.Lock(); s.plan.During = f; s.mu.Unlock() }

// Calls returns the calls seen so far.
func (s *Store) Calls() []Call {
	s.mu.Lock()
	defer s.mu.Unlock()
	return append([]Call{}, s.calls...)
}

// Fired returns the call that was made to fail, if any.
func (s *Store) Fired() *Call {
	s.mu.Lock()
	defer s.mu.Unlock()
	return s.fired
}

// Delivered returns how many elements the failing lookup delivered.
func (s *Store) Delivered() int {
	s.mu.Lock()
	defer s.mu.Unlock()
	return s.delivered
}

// enter numbers a call and says whether it has to fail.
func (s *Store) enter(method, graph string) bool {
	s.mu.Lock()
	defer s.mu.Unlock()
	s.n++
	c := Call{N: s.n, Method: method, Graph: graph}
	s.calls = append(s.calls, c)
	if s.plan.K > 0 && s.n == s.plan.K {
		s.fired = &c
		if d := s.plan.During; d != nil {
			s.plan.During = nil
			s.mu.Unlock()
			d()
			s.mu.Lock()
		}
		return true
	}
	if s.plan.From > 0 && s.n >= s.plan.From {
		if s.fired == nil {
			s.fired = &c
		}
		return true
	}
	return false
}

func (s *Store) Name(ctx context.Context) string    { return "FAULTY(" + s.inner.Name(ctx) + ")" }
func (s *Store) Version(ctx context.Context) string { return s.inner.Version(ctx) }

func (s *Store) NewGraph(ctx context.Context, id string) (storage.Graph, error) {
	if s.enter("Store.NewGraph", id) {
		return nil, fmt.Errorf("NewGraph(%s): %w", id, ErrInjected)
	}
	g, err := s.inner.NewGraph(ctx, id)
	if err != nil {
		return nil, err
	}
	return &graph{s: s, g: g, id: id}, nil
}

func (s *Store) Graph(ctx context.Context, id string) (storage.Graph, error) {
	if s.enter("Store.Graph", id) {
		return nil, fmt.Errorf("Graph(%s): %w", id, ErrInjected)
	}
	g, err := s.inner.Graph(ctx, id)
	if err != nil {
		return nil, err
	}
	return &graph{s: s, g: g, id: id}, nil
}

func (s *Store) DeleteGraph(ctx context.Context, id string) error {
	if s.enter("Store.DeleteGraph", id) {
		return fmt.Errorf("DeleteGraph(%s): %w", id, ErrInjected)
	}
	return s.inner.DeleteGraph(ctx, id)
}

func (s *Store) GraphNames(ctx context.Context, names chan<- string) error {
	if s.enter("Store.GraphNames", "") {
		return failStream(s, names, func(c chan<- string) error { return s.inner.GraphNames(ctx, c) })
	}
	return s.inner.GraphNames(ctx, names)
}

// failStream runs the real lookup into a private channel, forwards the first
// After elements, closes out exactly once and returns the injected error.
func failStream[T any](s *Store, out chan<- T, run func(chan<- T) error) error {
	closed := false
	defer func() {
		if !closed {
			close(out)
		}
	}()
	inner := make(chan T)
	done := make(chan struct{})
	go func() {
		run(inner)
		close(done)
	}()
	sent := 0
	for v := range inner {
		if sent < s.plan.After {
			out <- v
			sent++
		}
	}
	<-done
	s.mu.Lock()
	s.delivered = sent
	s.mu.Unlock()
	if s.plan.Late {
		close(out)
		closed = true
		// widen the window between "channel closed" and "call returned"; this
		// only shapes the interleaving, no verdict depends on the duration
		for i := 0; i < 100; i++ {
			runtime.Gosched()
		}
		time.Sleep(3 * time.Millisecond)
	}
	return ErrInjected
}

type graph struct {
	s  *Store
	g  storage.Graph
	id string
}

func (g *graph) ID(ctx context.Context) string { return g.g.ID(ctx) }

func (g *graph) AddTriples(ctx context.Context, ts []*triple.Triple) error {
	if g.s.enter("Graph.AddTriples", g.id) {
		return fmt.Errorf("AddTriples: %w", ErrInjected)
	}
	return g.g.AddTriples(ctx, ts)
}

func (g *graph) RemoveTriples(ctx context.Context, ts []*triple.Triple) error {
	if g.s.enter("Graph.RemoveTriples", g.id) {
		return fmt.Errorf("RemoveTriples: %w", ErrInjected)
	}
	return g.g.RemoveTriples(ctx, ts)
}

func (g *graph) Objects(ctx context.Context, s *node.Node, p *predicate.Predicate, lo *storage.LookupOptions, out chan<- *triple.Object) error {
	if g.s.enter("Graph.Objects", g.id) {
		return failStream(g.s, out, func(c chan<- *triple.Object) error { return g.g.Objects(ctx, s, p, lo, c) })
	}
	return g.g.Objects(ctx, s, p, lo, out)
}

func (g *graph) Subjects(ctx context.Context, p *predicate.Predicate, o *triple.Object, lo *storage.LookupOptions, out chan<- *node.Node) error {
	if g.s.enter("Graph.Subjects", g.id) {
		return failStream(g.s, out, func(c chan<- *node.Node) error { return g.g.Subjects(ctx, p, o, lo, c) })
	}
	return g.g.Subjects(ctx, p, o, lo, out)
}

func (g *graph) PredicatesForSubject(ctx context.Context, s *node.Node, lo *storage.LookupOptions, out chan<- *predicate.Predicate) error {
	if g.s.enter("Graph.PredicatesForSubject", g.id) {
		return failStream(g.s, out, func(c chan<- *predicate.Predicate) error { return g.g.PredicatesForSubject(ctx, s, lo, c) })
	}
	return g.g.PredicatesForSubject(ctx, s, lo, out)
}

func (g *graph) PredicatesForObject(ctx context.Context, o *triple.Object, lo *storage.LookupOptions, out chan<- *predicate.Predicate) error {
	if g.s.enter("Graph.PredicatesForObject", g.id) {
		return failStream(g.s, out, func(c chan<- *predicate.Predicate) error { return g.g.PredicatesForObject(ctx, o, lo, c) })
	}
	return g.g.PredicatesForObject(ctx, o, lo, out)
}

func (g *graph) PredicatesForSubjectAndObject(ctx context.Context, s *node.Node, o *triple.Object, lo *storage.LookupOptions, out chan<- *predicate.Predicate) error {
	if g.s.enter("Graph.PredicatesForSubjectAndObject", g.id) {
		return failStream(g.s, out, func(c chan<- *predicate.Predicate) error {
			return g.g.PredicatesForSubjectAndObject(ctx, s, o, lo, c)
		})
	}
	return g.g.PredicatesForSubjectAndObject(ctx, s, o, lo, out)
}

func (g *graph) TriplesForSubject(ctx context.Context, s *node.Node, lo *storage.LookupOptions, out chan<- *triple.Triple) error {
	if g.s.enter("Graph.TriplesForSubject", g.id) {
		return failStream(g.s, out, func(c chan<- *triple.Triple) error { return g.g.TriplesForSubject(ctx, s, lo, c) })
	}
	return g.g.TriplesForSubject(ctx, s, lo, out)
}

func (g *graph) TriplesForPredicate(ctx context.Context, p *predicate.Predicate, lo *storage.LookupOptions, out chan<- *triple.Triple) error {
	if g.s.enter("Graph.TriplesForPredicate", g.id) {
		return failStream(g.s, out, func(c chan<- *triple.Triple) error { return g.g.TriplesForPredicate(ctx, p, lo, c) })
	}
	return g.g.TriplesForPredicate(ctx, p, lo, out)
}

func (g *graph) TriplesForObject(ctx context.Context, o *triple.Object, lo *storage.LookupOptions, out chan<- *triple.Triple) error {
	if g.s.enter("Graph.TriplesForObject", g.id) {
		return failStream(g.s, out, func(c chan<- *triple.Triple) error { return g.g.TriplesForObject(ctx, o, lo, c) })
	}
	return g.g.TriplesForObject(ctx, o, lo, out)
}

func (g *graph) TriplesForSubjectAndPredicate(ctx context.Context, s *node.Node, p *predicate.Predicate, lo *storage.LookupOptions, out chan<- *triple.Triple) error {
	if g.s.enter("Graph.TriplesForSubjectAndPredicate", g.id) {
		return failStream(g.s, out, func(c chan<- *triple.Triple) error {
			return g.g.TriplesForSubjectAndPredicate(ctx, s, p, lo, c)
		})
	}
	return g.g.TriplesForSubjectAndPredicate(ctx, s, p, lo, out)
}

func (g *graph) TriplesForPredicateAndObject(ctx context.Context, p *predicate.Predicate, o *triple.Object, lo *storage.LookupOptions, out chan<- *triple.Triple) error {
	if g.s.enter("Graph.TriplesForPredicateAndObject", g.id) {
		return failStream(g.s, out, func(c chan<- *triple.Triple) error {
			return g.g.TriplesForPredicateAndObject(ctx, p, o, lo, c)
		})
	}
	return g.g.TriplesForPredicateAndObject(ctx, p, o, lo, out)
}

func (g *graph) Exist(ctx context.Context, t *triple.Triple) (bool, error) {
	if g.s.enter("Graph.Exist", g.id) {
		return false, fmt.Errorf("Exist: %w", ErrInjected)
	}
	return g.g.Exist(ctx, t)
}

func (g *graph) Triples(ctx context.Context, lo *storage.LookupOptions, out chan<- *triple.Triple) error {
	if g.s.enter("Graph.Triples", g.id) {
		return failStream(g.s, out, func(c chan<- *triple.Triple) error { return g.g.Triples(ctx, lo, c) })
	}
	return g.g.Triples(ctx, lo, out)
}
