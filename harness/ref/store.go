// Package ref holds the reference models: a store as a map from graph names to
// sets of canonical triples, the reference semantics of the ten lookups and
// of the lookup options (DESIGN.md Appendix B).
package ref

import (
	"context"
	"fmt"
	"sort"
	"strings"
	"time"

	"bwverif/cv"

	"github.com/google/badwolf/bql/planner/filter"
	"github.com/google/badwolf/storage"
	"github.com/google/badwolf/triple"
	"github.com/google/badwolf/triple/node"
	"github.com/google/badwolf/triple/predicate"
)

// Graph is a set of triples keyed by canonical value.
type Graph map[string]*triple.Triple

// Store is the model store.
type Store map[string]Graph

// Add adds triples (re-adding is a no-op apart from the representative).
func (g Graph) Add(ts []*triple.Triple) {
	for _, t := range ts {
		g[cv.Triple(t)] = t
	}
}

// Remove removes triples (absent ones are ignored).
func (g Graph) Remove(ts []*triple.Triple) {
	for _, t := range ts {
		delete(g, cv.Triple(t))
	}
}

// Canon lists the canonical triples, sorted.
func (g Graph) Canon() []string {
	res := make([]string, 0, len(g))
	for k := range g {
		res = append(res, k)
	}
	sort.Strings(res)
	return res
}

// Triples lists the representatives.
func (g Graph) Triples() []*triple.Triple {
	var res []*triple.Triple
	for _, k := range g.Canon() {
		res = append(res, g[k])
	}
	return res
}

// Methods are the ten lookups plus the full listing.
var Methods = []string{"Objects", "Subjects", "PredicatesForSubject", "PredicatesForObject", "PredicatesForSubjectAndObject",
	"TriplesForSubject", "TriplesForPredicate", "TriplesForObject", "TriplesForSubjectAndPredicate", "TriplesForPredicateAndObject", "Triples"}

// Query is one lookup call.
type Query struct {
	Method string
	S      *node.Node
	P      *predicate.Predicate
	O      *triple.Object
}

func (q Query) String() string {
	var parts []string
	if q.S != nil {
		parts = append(parts, "s="+q.S.String())
	}
	if q.P != nil {
		parts = append(parts, "p="+q.P.String())
	}
	if q.O != nil {
		parts = append(parts, "o="+q.O.String())
	}
	return q.Method + "(" + strings.Join(parts, ", ") + ")"
}

// Uses reports which components a method fixes.
func Uses(method string) (s, p, o bool) {
	switch method {
	case "Objects", "TriplesForSubjectAndPredicate":
		return true, true, false
	case "Subjects", "TriplesForPredicateAndObject":
		return false, true, true
	case "PredicatesForSubject", "TriplesForSubject":
		return true, false, false
	case "PredicatesForObject", "TriplesForObject":
		return false, false, true
	case "PredicatesForSubjectAndObject":
		return true, false, true
	case "TriplesForPredicate":
		return false, true, false
	}
	return false, false, false
}

// Project returns what a method yields for a matching triple, canonically.
func Project(method string, t *triple.Triple) string {
	switch method {
	case "Objects":
		return cv.Obj(t.Object())
	case "Subjects":
		return cv.Node(t.Subject())
	case "PredicatesForSubject", "PredicatesForObject", "PredicatesForSubjectAndObject":
		return cv.Pred(t.Predicate())
	}
	return cv.Triple(t)
}

// Candidates are the triples whose fixed components equal the given ones: a
// predicate argument matches the same id, the same kind and, when temporal,
// the same instant.
func Candidates(state []*triple.Triple, q Query) []*triple.Triple {
	us, up, uo := Uses(q.Method)
	var res []*triple.Triple
	for _, t := range state {
		if us && cv.Node(t.Subject()) != cv.Node(q.S) {
			continue
		}
		if up && cv.Pred(t.Predicate()) != cv.Pred(q.P) {
			continue
		}
		if uo && cv.Obj(t.Object()) != cv.Obj(q.O) {
			continue
		}
		res = append(res, t)
	}
	return res
}

func anchorOf(p *predicate.Predicate) (time.Time, bool) {
	if p == nil || p.Type() != predicate.Temporal {
		return time.Time{}, false
	}
	ta, err := p.TimeAnchor()
	if err != nil || ta == nil {
		return time.Time{}, false
	}
	return *ta, true
}

// OptionsError says whether the options are invalid (LatestAnchor together
// with a filter, or a filter on a field other than predicate/object, or an
// unknown operation).
func OptionsError(lo *storage.LookupOptions) bool {
	if lo.LatestAnchor && lo.FilterOptions != nil {
		return true
	}
	if lo.FilterOptions != nil {
		f := lo.FilterOptions
		if f.Field != filter.PredicateField && f.Field != filter.ObjectField {
			return true
		}
		if f.Operation != filter.Latest && f.Operation != filter.IsImmutable && f.Operation != filter.IsTemporal {
			return true
		}
	}
	return false
}

// Select applies window and filter (steps 2 and 3 of Appendix B) to candidates.
func Select(cands []*triple.Triple, lo *storage.LookupOptions) []*triple.Triple {
	var win []*triple.Triple
	for _, t := range cands {
		if a, ok := anchorOf(t.Predicate()); ok {
			if lo.LowerAnchor != nil && a.Before(*lo.LowerAnchor) {
				continue
			}
			if lo.UpperAnchor != nil && a.After(*lo.UpperAnchor) {
				continue
			}
		}
		win = append(win, t)
	}
	fo := lo.FilterOptions
	if lo.LatestAnchor {
		fo = &filter.StorageOptions{Operation: filter.Latest, Field: filter.PredicateField}
	}
	if fo == nil {
		return win
	}
	pi := func(t *triple.Triple) *predicate.Predicate {
		if fo.Field == filter.PredicateField {
			return t.Predicate()
		}
		if p, err := t.Object().Predicate(); err == nil {
			return p
		}
		return nil
	}
	var res []*triple.Triple
	switch fo.Operation {
	case filter.IsImmutable, filter.IsTemporal:
		want := predicate.Immutable
		if fo.Operation == filter.IsTemporal {
			want = predicate.Temporal
		}
		for _, t := range win {
			if p := pi(t); p != nil && p.Type() == want {
				res = append(res, t)
			}
		}
	case filter.Latest:
		latest := map[string]time.Time{}
		for _, t := range win {
			if p := pi(t); p != nil {
				if a, ok := anchorOf(p); ok {
					if cur, seen := latest[string(p.ID())]; !seen || a.After(cur) {
						latest[string(p.ID())] = a
					}
				}
			}
		}
		for _, t := range win {
			if p := pi(t); p != nil {
				if a, ok := anchorOf(p); ok && a.Equal(latest[string(p.ID())]) {
					res = append(res, t)
				}
			}
		}
	}
	return res
}

// Lookup evaluates the reference semantics without paging: the sorted
// multiset of projected results, or isErr.
func Lookup(state []*triple.Triple, q Query, lo *storage.LookupOptions) (res []string, isErr bool) {
	if OptionsError(lo) {
		return nil, true
	}
	for _, t := range Select(Candidates(state, q), lo) {
		res = append(res, Project(q.Method, t))
	}
	sort.Strings(res)
	return res, false
}

// Call runs the real lookup and returns the projected results in delivery
// order, the error, and whether the channel was observed closed.
func Call(ctx context.Context, g storage.Graph, q Query, lo *storage.LookupOptions) (res []string, err error, closed bool) {
	done := make(chan struct{})
	switch q.Method {
	case "Objects":
		ch := make(chan *triple.Object, 8)
		go func() { err = g.Objects(ctx, q.S, q.P, lo, ch); close(done) }()
		for o := range ch {
			res = append(res, cv.Obj(o))
		}
	case "Subjects":
		ch := make(chan *node.Node, 8)
		go func() { err = g.Subjects(ctx, q.P, q.O, lo, ch); close(done) }()
		for n := range ch {
			res = append(res, cv.Node(n))
		}
	case "PredicatesForSubject", "PredicatesForObject", "PredicatesForSubjectAndObject":
		ch := make(chan *predicate.Predicate, 8)
		go func() {
			switch q.Method {
			case "PredicatesForSubject":
				err = g.PredicatesForSubject(ctx, q.S, lo, ch)
			case "PredicatesForObject":
				err = g.PredicatesForObject(ctx, q.O, lo, ch)
			default:
				err = g.PredicatesForSubjectAndObject(ctx, q.S, q.O, lo, ch)
			}
			close(done)
		}()
		for p := range ch {
			res = append(res, cv.Pred(p))
		}
	default:
		ch := make(chan *triple.Triple, 8)
		go func() {
			switch q.Method {
			case "TriplesForSubject":
				err = g.TriplesForSubject(ctx, q.S, lo, ch)
			case "TriplesForPredicate":
				err = g.TriplesForPredicate(ctx, q.P, lo, ch)
			case "TriplesForObject":
				err = g.TriplesForObject(ctx, q.O, lo, ch)
			case "TriplesForSubjectAndPredicate":
				err = g.TriplesForSubjectAndPredicate(ctx, q.S, q.P, lo, ch)
			case "TriplesForPredicateAndObject":
				err = g.TriplesForPredicateAndObject(ctx, q.P, q.O, lo, ch)
			case "Triples":
				err = g.Triples(ctx, lo, ch)
			default:
				err = fmt.Errorf("ref.Call: unknown method %q", q.Method)
				close(ch)
			}
			close(done)
		}()
		for t := range ch {
			res = append(res, cv.Triple(t))
		}
	}
	// the range loops above ended, so the channel was closed
	<-done
	return res, err, true
}

// CopyOptions returns a deep copy of lookup options.
func CopyOptions(lo *storage.LookupOptions) *storage.LookupOptions {
	c := *lo
	if lo.LowerAnchor != nil {
		t := *lo.LowerAnchor
		c.LowerAnchor = &t
	}
	if lo.UpperAnchor != nil {
		t := *lo.UpperAnchor
		c.UpperAnchor = &t
	}
	if lo.FilterOptions != nil {
		f := *lo.FilterOptions
		c.FilterOptions = &f
	}
	return &c
}

// OptionsString renders options for witnesses.
func OptionsString(lo *storage.LookupOptions) string {
	f := "nil"
	if lo.FilterOptions != nil {
		f = fmt.Sprintf("{op=%v field=%v}", lo.FilterOptions.Operation, lo.FilterOptions.Field)
	}
	ts := func(t *time.Time) string {
		if t == nil {
			return "nil"
		}
		return t.Format(time.RFC3339Nano)
	}
	return fmt.Sprintf("max=%d offset=%d lower=%s upper=%s latest=%v filter=%s", lo.MaxElements, lo.Offset, ts(lo.LowerAnchor), ts(lo.UpperAnchor), lo.LatestAnchor, f)
}
