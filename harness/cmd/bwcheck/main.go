// Command bwcheck runs the runtime-monitoring checks for google/badwolf.
package main

import (
	"flag"
	"fmt"
	"os"

	"bwverif/checks"
	"bwverif/rt"
)

func main() {
	var (
		id      = flag.String("id", "", "property id")
		tier    = flag.String("tier", "quick", "quick|thorough")
		seed    = flag.Int64("seed", 1, "seed")
		worker  = flag.Bool("worker", false, "run as worker")
		phase   = flag.String("phase", "", "worker: phase name")
		k       = flag.Int("k", 0, "worker: shard")
		n       = flag.Int("n", 1, "worker: shards")
		from    = flag.Int("from", 0, "worker: first index")
		only    = flag.Int("only", -1, "worker: run just this case")
		journal = flag.String("journal", "", "worker: journal path")
		replay  = flag.String("replay", "", "replay file")
		aux     = flag.String("aux", "", "run an auxiliary child-process function")
	)
	flag.Parse()
	if *aux != "" {
		f := checks.Aux[*aux]
		if f == nil {
			fmt.Fprintf(os.Stderr, "unknown aux %q\n", *aux)
			os.Exit(9)
		}
		os.Exit(f(flag.Args()))
	}
	c := checks.Registry[*id]
	if c == nil {
		fmt.Fprintf(os.Stderr, "unknown check %q\n", *id)
		os.Exit(9)
	}
	if *worker {
		os.Exit(rt.RunWorker(c, *phase, *tier, *seed, *k, *n, *from, *only, *journal))
	}
	if *replay != "" {
		os.Exit(rt.Replay(c, *replay))
	}
	os.Exit(rt.RunCheck(c, *tier, *seed))
}
