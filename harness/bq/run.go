package bq

import (
	"context"
	"fmt"
	"sync"

	"bwverif/cv"

	"github.com/google/badwolf/bql/grammar"
	"github.com/google/badwolf/bql/planner"
	"github.com/google/badwolf/bql/semantic"
	"github.com/google/badwolf/bql/table"
	"github.com/google/badwolf/storage"
	"github.com/google/badwolf/storage/memory"
	"github.com/google/badwolf/triple"
	"github.com/google/badwolf/triple/node"
	"github.com/google/badwolf/triple/predicate"
)

// Stage says where a statement stopped.
type Stage int

const (
	StageParse Stage = iota
	StagePlan
	StageExecute
	StageDone
)

// Run pushes one statement through the real pipeline (fresh SemanticBQL parser,
// planner.New, Execute) exactly as tools/vcli/bw/run.BQL does.
func Run(ctx context.Context, st storage.Store, text string, chanSize, bulkSize int) (*table.Table, Stage, error) {
	p, err := grammar.NewParser(grammar.SemanticBQL())
	if err != nil {
		return nil, StageParse, fmt.Errorf("NewParser: %v", err)
	}
	stm := &semantic.Statement{}
	if err := p.Parse(grammar.NewLLk(text, 1), stm); err != nil {
		return nil, StageParse, err
	}
	pln, err := planner.New(ctx, st, stm, chanSize, bulkSize, nil)
	if err != nil {
		return nil, StagePlan, err
	}
	tbl, err := pln.Execute(ctx)
	if err != nil {
		return tbl, StageExecute, err
	}
	return tbl, StageDone, nil
}

// NewStore builds a memory store holding the data.
func NewStore(ctx context.Context, data Data) storage.Store {
	st := memory.NewStore()
	Load(ctx, st, data)
	return st
}

// Load creates the graphs of data in st and fills them.
func Load(ctx context.Context, st storage.Store, data Data) {
	for name, ts := range data {
		g, err := st.NewGraph(ctx, name)
		if err != nil {
			panic("bq.Load: " + err.Error())
		}
		if len(ts) > 0 {
			// The contents are reached through a history, not by one insertion
			// ("for any contents of the queried graphs"): for every triple three
			// neighbours sharing two of its components (and so its S+P, P+O and
			// S+O index buckets) are added with the data and removed again; the
			// graph ends up holding exactly ts.
			junk := loadJunk(ts)
			if err := g.AddTriples(ctx, append(append([]*triple.Triple{}, junk...), ts...)); err != nil {
				panic("bq.Load: " + err.Error())
			}
			if err := g.RemoveTriples(ctx, junk); err != nil {
				panic("bq.Load: " + err.Error())
			}
			if err := g.AddTriples(ctx, ts[:1]); err != nil {
				panic("bq.Load: " + err.Error())
			}
		}
	}
}

var (
	junkNode, _ = node.NewNodeFromStrings("/u", "zzjunk")
	junkPred, _ = predicate.NewImmutable("zzjunk")
)

// loadJunk returns, for every triple of ts, the three triples obtained by
// replacing one component with a value that occurs in no generated data.
func loadJunk(ts []*triple.Triple) []*triple.Triple {
	var res []*triple.Triple
	for _, t := range ts {
		for k := 0; k < 3; k++ {
			s, p, o := t.Subject(), t.Predicate(), t.Object()
			switch k {
			case 0:
				s = junkNode
			case 1:
				p = junkPred
			default:
				o = triple.NewNodeObject(junkNode)
			}
			if j, err := triple.New(s, p, o); err == nil {
				res = append(res, j)
			}
		}
	}
	return res
}

// TableRows canonicalises a result table over the given output bindings.
func TableRows(t *table.Table, out []string) []string {
	return cv.Rows(t, out)
}

// DataStrings renders data for witnesses.
func DataStrings(d Data) map[string][]string {
	res := map[string][]string{}
	for g, ts := range d {
		res[g] = []string{}
		for _, t := range ts {
			res[g] = append(res[g], t.String())
		}
	}
	return res
}

// Snapshot lists every graph of the store canonically.
func Snapshot(ctx context.Context, st storage.Store) (map[string][]string, error) {
	names := make(chan string, 64)
	var nerr error
	done := make(chan struct{})
	go func() { nerr = st.GraphNames(ctx, names); close(done) }()
	var ns []string
	for n := range names {
		ns = append(ns, n)
	}
	<-done
	if nerr != nil {
		return nil, nerr
	}
	res := map[string][]string{}
	for _, n := range ns {
		g, err := st.Graph(ctx, n)
		if err != nil {
			return nil, err
		}
		ch := make(chan *triple.Triple, 64)
		var terr error
		d2 := make(chan struct{})
		go func() { terr = g.Triples(ctx, storage.DefaultLookup, ch); close(d2) }()
		rows := []string{}
		for t := range ch {
			rows = append(rows, cv.Triple(t))
		}
		<-d2
		if terr != nil {
			return nil, terr
		}
		sortStrings(rows)
		res[n] = rows
	}
	return res, nil
}

// LazyStore defers building the store until a statement actually touches it
// (most malformed statements are rejected by the parser first).
type LazyStore struct {
	Make func() storage.Store
	once sync.Once
	st   storage.Store
}

func (l *LazyStore) get() storage.Store {
	l.once.Do(func() { l.st = l.Make() })
	return l.st
}

func (l *LazyStore) Name(ctx context.Context) string    { return l.get().Name(ctx) }
func (l *LazyStore) Version(ctx context.Context) string { return l.get().Version(ctx) }
func (l *LazyStore) NewGraph(ctx context.Context, id string) (storage.Graph, error) {
	return l.get().NewGraph(ctx, id)
}
func (l *LazyStore) Graph(ctx context.Context, id string) (storage.Graph, error) {
	return l.get().Graph(ctx, id)
}
func (l *LazyStore) DeleteGraph(ctx context.Context, id string) error {
	return l.get().DeleteGraph(ctx, id)
}
func (l *LazyStore) GraphNames(ctx context.Context, names chan<- string) error {
	return l.get().GraphNames(ctx, names)
}
