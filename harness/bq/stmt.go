package bq

import (
	"strings"

	"github.com/google/badwolf/triple"
)

// Pair is one predicate-object pair of a construct template.
type Pair struct{ P, O Term }

// Template is one CONSTRUCT / DECONSTRUCT template clause; more than one pair
// means reification (';').
type Template struct {
	S     Term
	Pairs []Pair
}

// Text renders the template.
func (t Template) Text() string {
	var ps []string
	for _, p := range t.Pairs {
		ps = append(ps, p.P.Text()+" "+p.O.Text())
	}
	return t.S.Text() + " " + strings.Join(ps, " ; ")
}

// Stmt is any statement.
type Stmt struct {
	Kind      string // insert, delete, create, drop, construct, deconstruct, show, select, raw
	Graphs    []string
	Triples   []*triple.Triple
	Templates []Template
	Out, In   []string
	Where     []Clause
	Having    string
	Query     *Query
	Raw       string
}

func tripleText(t *triple.Triple) string {
	return t.Subject().String() + " " + t.Predicate().String() + " " + t.Object().String()
}

// Text renders the statement.
func (s *Stmt) Text() string {
	switch s.Kind {
	case "insert", "delete":
		var ts []string
		for _, t := range s.Triples {
			ts = append(ts, tripleText(t))
		}
		if s.Kind == "insert" {
			return "INSERT DATA INTO " + strings.Join(s.Graphs, ", ") + " { " + strings.Join(ts, " . ") + " };"
		}
		return "DELETE DATA FROM " + strings.Join(s.Graphs, ", ") + " { " + strings.Join(ts, " . ") + " };"
	case "create":
		return "CREATE GRAPH " + strings.Join(s.Graphs, ", ") + ";"
	case "drop":
		return "DROP GRAPH " + strings.Join(s.Graphs, ", ") + ";"
	case "show":
		return "SHOW GRAPHS;"
	case "construct", "deconstruct":
		var ts []string
		for _, t := range s.Templates {
			ts = append(ts, t.Text())
		}
		h := ""
		if s.Having != "" {
			h = " HAVING " + s.Having
		}
		if s.Kind == "construct" {
			return "CONSTRUCT { " + strings.Join(ts, " . ") + " } INTO " + strings.Join(s.Out, ", ") + " FROM " + strings.Join(s.In, ", ") + " WHERE { " + PatternText(s.Where) + " }" + h + ";"
		}
		return "DECONSTRUCT { " + strings.Join(ts, " . ") + " } IN " + strings.Join(s.Out, ", ") + " FROM " + strings.Join(s.In, ", ") + " WHERE { " + PatternText(s.Where) + " }" + h + ";"
	case "select":
		return s.Query.Text()
	}
	return s.Raw
}
