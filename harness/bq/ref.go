package bq

import (
	"sort"
	"strings"
	"time"

	"bwverif/cv"

	"github.com/google/badwolf/triple"
	"github.com/google/badwolf/triple/literal"
	"github.com/google/badwolf/triple/node"
	"github.com/google/badwolf/triple/predicate"
)

// Val is a bound value: its canonical form plus the badwolf value it came
// from (needed to instantiate CONSTRUCT templates).
type Val struct {
	Canon string
	N     *node.Node
	P     *predicate.Predicate
	L     *literal.Literal
	T     *time.Time
	S     *string
}

// Null is the NULL value.
var Null = Val{Canon: cv.Null}

func nodeVal(n *node.Node) Val           { return Val{Canon: cv.Node(n), N: n} }
func predVal(p *predicate.Predicate) Val { return Val{Canon: cv.Pred(p), P: p} }
func timeVal(t time.Time) Val            { return Val{Canon: cv.Time(t), T: &t} }
func strVal(s string) Val                { return Val{Canon: cv.Str(s), S: &s} }
func objLit(l *literal.Literal) Val      { return Val{Canon: cv.Lit(l), L: l} }
func objVal(o *triple.Object) Val {
	if n, err := o.Node(); err == nil {
		return nodeVal(n)
	}
	if p, err := o.Predicate(); err == nil {
		return predVal(p)
	}
	l, _ := o.Literal()
	return objLit(l)
}

// Env maps bindings to values.
type Env map[string]Val

func (e Env) clone() Env {
	c := make(Env, len(e)+4)
	for k, v := range e {
		c[k] = v
	}
	return c
}

// Data maps graph names to their triples.
type Data map[string][]*triple.Triple

func anchor(p *predicate.Predicate) (time.Time, bool) {
	if p == nil || p.Type() != predicate.Temporal {
		return time.Time{}, false
	}
	ta, err := p.TimeAnchor()
	if err != nil || ta == nil {
		return time.Time{}, false
	}
	return *ta, true
}

// Match tries to match clause c against triple t under env, inside the closed
// global interval [lo, hi]. It returns the extended environment.
func Match(c Clause, t *triple.Triple, env Env, lo, hi *time.Time) (Env, bool) {
	e := env.clone()
	ok := true
	bind := func(b string, v Val) {
		if b == "" || !ok {
			return
		}
		if old, has := e[b]; has {
			if old.Canon != v.Canon {
				ok = false
			}
			return
		}
		e[b] = v
	}
	// extraction that cannot apply: no match in a mandatory clause, NULL in an
	// optional one
	inapplicable := func(b string) {
		if b == "" {
			return
		}
		if c.Optional {
			bind(b, Null)
		} else {
			ok = false
		}
	}
	s, p, o := t.Subject(), t.Predicate(), t.Object()
	// global bounds
	if a, temporal := anchor(p); temporal {
		if lo != nil && a.Before(*lo) {
			return nil, false
		}
		if hi != nil && a.After(*hi) {
			return nil, false
		}
	}
	// subject
	switch c.S.Kind {
	case KNode:
		if cv.Node(c.S.Node) != cv.Node(s) {
			return nil, false
		}
	case KBinding:
		bind(c.S.Binding, nodeVal(s))
	default:
		return nil, false
	}
	bind(c.SAs, nodeVal(s))
	bind(c.SType, strVal(s.Type().String()))
	bind(c.SID, strVal(s.ID().String()))
	// predicate
	matchPredForm := func(tm Term, q *predicate.Predicate) {
		switch tm.Kind {
		case KPBind:
			if string(q.ID()) != tm.ID {
				ok = false
				return
			}
			a, temporal := anchor(q)
			if !temporal {
				// an anchor extraction that cannot apply
				inapplicable(tm.TBind)
				return
			}
			bind(tm.TBind, timeVal(a))
		case KPBound:
			a, temporal := anchor(q)
			if !temporal || string(q.ID()) != tm.ID {
				ok = false
				return
			}
			lo, hi := tm.Lo, tm.Hi
			// bound aliases take the time value an earlier clause bound
			for _, ba := range []struct {
				b   string
				dst **time.Time
			}{{tm.LoB, &lo}, {tm.HiB, &hi}} {
				if ba.b == "" {
					continue
				}
				v, has := e[ba.b]
				if !has || v.T == nil {
					ok = false
					return
				}
				*ba.dst = v.T
			}
			if lo != nil && a.Before(*lo) {
				ok = false
			}
			if hi != nil && a.After(*hi) {
				ok = false
			}
		}
	}
	switch c.P.Kind {
	case KPred:
		if cv.Pred(c.P.Pred) != cv.Pred(p) {
			return nil, false
		}
	case KBinding:
		bind(c.P.Binding, predVal(p))
	case KPBind, KPBound:
		matchPredForm(c.P, p)
	default:
		return nil, false
	}
	bind(c.PAs, predVal(p))
	bind(c.PID, strVal(string(p.ID())))
	if c.PAt != "" {
		if a, temporal := anchor(p); temporal {
			bind(c.PAt, timeVal(a))
		} else {
			inapplicable(c.PAt)
		}
	}
	// object
	on, _ := o.Node()
	op, _ := o.Predicate()
	switch c.O.Kind {
	case KNode:
		if on == nil || cv.Node(c.O.Node) != cv.Node(on) {
			return nil, false
		}
	case KLit:
		if cv.Obj(o) != cv.Lit(c.O.Lit) {
			return nil, false
		}
	case KPred:
		if op == nil || cv.Pred(c.O.Pred) != cv.Pred(op) {
			return nil, false
		}
	case KBinding:
		bind(c.O.Binding, objVal(o))
	case KPBind, KPBound:
		if op == nil {
			return nil, false
		}
		matchPredForm(c.O, op)
	default:
		return nil, false
	}
	bind(c.OAs, objVal(o))
	if c.OType != "" {
		if on != nil {
			bind(c.OType, strVal(on.Type().String()))
		} else {
			inapplicable(c.OType)
		}
	}
	if c.OID != "" {
		switch {
		case on != nil:
			bind(c.OID, strVal(on.ID().String()))
		case op != nil:
			bind(c.OID, strVal(string(op.ID())))
		default:
			inapplicable(c.OID)
		}
	}
	if c.OAt != "" {
		if a, temporal := anchor(op); temporal {
			bind(c.OAt, timeVal(a))
		} else {
			inapplicable(c.OAt)
		}
	}
	if !ok {
		return nil, false
	}
	return e, true
}

// Solve returns the solutions of the pattern over the listed graphs: one per
// (graph, triple) choice for every clause, clauses processed left to right,
// OPTIONAL as a left outer join.
func Solve(clauses []Clause, graphs []string, data Data, lo, hi *time.Time) []Env {
	envs, _ := SolveMax(clauses, graphs, data, lo, hi, 1<<30)
	return envs
}

// SolveMax is Solve with a cap on the number of intermediate solutions; ok is
// false when the cap was exceeded (the case is then too big to be useful).
func SolveMax(clauses []Clause, graphs []string, data Data, lo, hi *time.Time, max int) (res []Env, ok bool) {
	envs := []Env{{}}
	for _, c := range clauses {
		if len(envs) > max {
			return nil, false
		}
		var next []Env
		// a clause that mentions no binding assigns nothing: it can only keep
		// or drop an assignment, whatever the number of triples it matches
		bindingFree := len(c.Bindings()) == 0
		for _, e := range envs {
			matched := false
		graphLoop:
			for _, g := range graphs {
				for _, t := range data[g] {
					if ne, ok := Match(c, t, e, lo, hi); ok {
						next = append(next, ne)
						matched = true
						if bindingFree {
							break graphLoop
						}
					}
				}
			}
			if !matched && c.Optional {
				ne := e.clone()
				for _, b := range c.Bindings() {
					if _, has := ne[b]; !has {
						ne[b] = Null
					}
				}
				next = append(next, ne)
			}
		}
		envs = next
	}
	if len(envs) > max {
		return nil, false
	}
	return envs, true
}

// ProjectRows projects solutions on the SELECT list (no aggregation) and
// returns the sorted multiset of canonical rows.
func ProjectRows(envs []Env, vars []Proj) []string {
	var rows []string
	for _, e := range envs {
		parts := make([]string, len(vars))
		for i, v := range vars {
			if val, ok := e[v.Binding]; ok {
				parts[i] = val.Canon
			} else {
				parts[i] = cv.Null
			}
		}
		rows = append(rows, strings.Join(parts, "\x1e"))
	}
	sort.Strings(rows)
	return rows
}

// DuplicatedAcrossGraphs reports whether the same triple is stored in more
// than one of the listed graphs (then multiplicities are left open).
func DuplicatedAcrossGraphs(graphs []string, data Data) bool {
	seen := map[string]string{}
	for _, g := range graphs {
		for _, t := range data[g] {
			k := cv.Triple(t)
			if og, ok := seen[k]; ok && og != g {
				return true
			}
			seen[k] = g
		}
	}
	// the same graph listed twice
	names := map[string]bool{}
	for _, g := range graphs {
		if names[g] {
			return true
		}
		names[g] = true
	}
	return false
}

func sortStrings(xs []string) { sort.Strings(xs) }
