package bq

import (
	"fmt"

	"github.com/google/badwolf/triple"
	"github.com/google/badwolf/triple/node"
	"github.com/google/badwolf/triple/predicate"
)

// Instance is what one template clause yields for one solution row: either a
// plain triple, or (with ';') a reification: base triple + extra facts that
// hang off one fresh blank node.
type Instance struct {
	Plain  *triple.Triple
	Reify  bool
	S      *node.Node
	P      *predicate.Predicate
	O      *triple.Object
	Extras []struct {
		P *predicate.Predicate
		O *triple.Object
	}
}

func termNode(t Term, e Env) (*node.Node, error) {
	switch t.Kind {
	case KNode:
		return t.Node, nil
	case KBinding:
		v, ok := e[t.Binding]
		if !ok || v.N == nil {
			return nil, fmt.Errorf("binding %s does not hold a node", t.Binding)
		}
		return v.N, nil
	}
	return nil, fmt.Errorf("unsupported subject term %s", t.Text())
}

func termPred(t Term, e Env) (*predicate.Predicate, error) {
	switch t.Kind {
	case KPred:
		return t.Pred, nil
	case KBinding:
		v, ok := e[t.Binding]
		if !ok || v.P == nil {
			return nil, fmt.Errorf("binding %s does not hold a predicate", t.Binding)
		}
		return v.P, nil
	case KPBind:
		v, ok := e[t.TBind]
		if !ok || v.T == nil {
			return nil, fmt.Errorf("binding %s does not hold a time", t.TBind)
		}
		return predicate.NewTemporal(t.ID, *v.T)
	}
	return nil, fmt.Errorf("unsupported predicate term %s", t.Text())
}

func termObj(t Term, e Env) (*triple.Object, error) {
	switch t.Kind {
	case KNode:
		return triple.NewNodeObject(t.Node), nil
	case KLit:
		return triple.NewLiteralObject(t.Lit), nil
	case KPred:
		return triple.NewPredicateObject(t.Pred), nil
	case KBinding:
		v, ok := e[t.Binding]
		switch {
		case !ok:
			return nil, fmt.Errorf("binding %s unbound", t.Binding)
		case v.N != nil:
			return triple.NewNodeObject(v.N), nil
		case v.P != nil:
			return triple.NewPredicateObject(v.P), nil
		case v.L != nil:
			return triple.NewLiteralObject(v.L), nil
		}
		return nil, fmt.Errorf("binding %s does not hold an object value", t.Binding)
	case KPBind:
		p, err := termPred(t, e)
		if err != nil {
			return nil, err
		}
		return triple.NewPredicateObject(p), nil
	}
	return nil, fmt.Errorf("unsupported object term %s", t.Text())
}

// Instantiate applies a template clause to one solution.
func Instantiate(t Template, e Env) (*Instance, error) {
	s, err := termNode(t.S, e)
	if err != nil {
		return nil, err
	}
	p, err := termPred(t.Pairs[0].P, e)
	if err != nil {
		return nil, err
	}
	o, err := termObj(t.Pairs[0].O, e)
	if err != nil {
		return nil, err
	}
	if len(t.Pairs) == 1 {
		tr, err := triple.New(s, p, o)
		if err != nil {
			return nil, err
		}
		return &Instance{Plain: tr}, nil
	}
	in := &Instance{Reify: true, S: s, P: p, O: o}
	for _, pr := range t.Pairs[1:] {
		ep, err := termPred(pr.P, e)
		if err != nil {
			return nil, err
		}
		eo, err := termObj(pr.O, e)
		if err != nil {
			return nil, err
		}
		in.Extras = append(in.Extras, struct {
			P *predicate.Predicate
			O *triple.Object
		}{ep, eo})
	}
	return in, nil
}
