package bq

import (
	"strings"
	"time"

	"github.com/google/badwolf/triple/literal"
	"github.com/google/badwolf/triple/node"
	"github.com/google/badwolf/triple/predicate"
)

// HExpr is a HAVING expression of the form the expression builder accepts:
//
//	E := cmp | NOT E | ( E ) | ( E ) AND E | ( E ) OR E
type HExpr struct {
	Kind string // "cmp", "not", "paren", "and", "or"
	L, R *HExpr // not: L; paren: L; and/or: (L) op R
	// cmp
	Left  string // binding
	Op    string // "=", "<", ">"
	RBind string
	RLit  *literal.Literal
	RNode *node.Node
	RPred *predicate.Predicate
	RTime *time.Time
}

// Text renders the expression.
func (e *HExpr) Text() string {
	switch e.Kind {
	case "cmp":
		r := e.RBind
		switch {
		case e.RLit != nil:
			r = e.RLit.String()
		case e.RNode != nil:
			r = e.RNode.String()
		case e.RPred != nil:
			r = e.RPred.String()
		case e.RTime != nil:
			r = TimeText(*e.RTime)
		}
		return e.Left + " " + e.Op + " " + r
	case "not":
		return "NOT " + e.L.Text()
	case "paren":
		return "(" + e.L.Text() + ")"
	case "and":
		return "(" + e.L.Text() + ") AND " + e.R.Text()
	case "or":
		return "(" + e.L.Text() + ") OR " + e.R.Text()
	}
	return "<?expr>"
}

// vkind classifies a canonical value for comparisons: int64, float64, text
// (text literals and ID/TYPE strings), time, node, pred, bool, blob, null.
func vkind(canon string) string {
	switch {
	case canon == "NULL":
		return "null"
	case strings.HasPrefix(canon, "L|int64|"):
		return "int64"
	case strings.HasPrefix(canon, "L|float64|"):
		return "float64"
	case strings.HasPrefix(canon, "L|text|"), strings.HasPrefix(canon, "S|"):
		return "text"
	case strings.HasPrefix(canon, "L|bool|"):
		return "bool"
	case strings.HasPrefix(canon, "L|blob|"):
		return "blob"
	case strings.HasPrefix(canon, "T|"):
		return "time"
	case strings.HasPrefix(canon, "N|"):
		return "node"
	case strings.HasPrefix(canon, "P|"):
		return "pred"
	}
	return "?"
}

// CmpVals compares two values of the same kind. ok is false when the kinds
// differ (the comparison never holds) or the order is not defined for the kind
// (node / predicate / bool / blob with < or >).
func CmpVals(a, b Val, op string) (res bool, ok bool) {
	ka, kb := vkind(a.Canon), vkind(b.Canon)
	if ka != kb || ka == "null" || ka == "?" {
		return false, false
	}
	var c int
	switch ka {
	case "int64":
		x, _ := a.L.Int64()
		y, _ := b.L.Int64()
		c = cmpOrd(x < y, x > y)
	case "float64":
		x, _ := a.L.Float64()
		y, _ := b.L.Float64()
		c = cmpOrd(x < y, x > y)
	case "time":
		c = cmpOrd(a.T.Before(*b.T), a.T.After(*b.T))
	case "text":
		x, y := textOf(a), textOf(b)
		c = cmpOrd(x < y, x > y)
	default: // node, pred, bool, blob: equality only
		if op != "=" {
			return false, false
		}
		return a.Canon == b.Canon, true
	}
	switch op {
	case "=":
		return c == 0, true
	case "<":
		return c < 0, true
	default:
		return c > 0, true
	}
}

func cmpOrd(lt, gt bool) int {
	if lt {
		return -1
	}
	if gt {
		return 1
	}
	return 0
}

func textOf(v Val) string {
	if v.S != nil {
		return *v.S
	}
	t, _ := v.L.Text()
	return t
}

// LitVal / NodeVal / PredVal / TimeVal build reference values from constants.
func LitVal(l *literal.Literal) Val      { return objLit(l) }
func NodeVal(n *node.Node) Val           { return nodeVal(n) }
func PredVal(p *predicate.Predicate) Val { return predVal(p) }
func TimeVal(t time.Time) Val            { return timeVal(t) }
func StrVal(s string) Val                { return strVal(s) }

// Eval evaluates the expression on a row (binding -> value). mismatch is set
// when some evaluated comparison met operands of different kinds (or an order
// comparison on a kind without order).
func (e *HExpr) Eval(row map[string]Val) (res bool, mismatch bool) {
	switch e.Kind {
	case "cmp":
		l, ok := row[e.Left]
		if !ok {
			return false, true
		}
		var r Val
		switch {
		case e.RLit != nil:
			r = LitVal(e.RLit)
		case e.RNode != nil:
			r = nodeVal(e.RNode)
		case e.RPred != nil:
			r = predVal(e.RPred)
		case e.RTime != nil:
			r = timeVal(*e.RTime)
		default:
			rv, ok := row[e.RBind]
			if !ok {
				return false, true
			}
			r = rv
		}
		v, defined := CmpVals(l, r, e.Op)
		return v, !defined
	case "not":
		v, m := e.L.Eval(row)
		return !v, m
	case "paren":
		return e.L.Eval(row)
	case "and":
		a, m1 := e.L.Eval(row)
		b, m2 := e.R.Eval(row)
		return a && b, m1 || m2
	case "or":
		a, m1 := e.L.Eval(row)
		b, m2 := e.R.Eval(row)
		return a || b, m1 || m2
	}
	return false, true
}

// CellVal converts a result cell into a reference value.
func CellVal(s *string, n *node.Node, p *predicate.Predicate, l *literal.Literal, t *time.Time) Val {
	switch {
	case s != nil:
		return strVal(*s)
	case n != nil:
		return nodeVal(n)
	case p != nil:
		return predVal(p)
	case l != nil:
		return objLit(l)
	case t != nil:
		return timeVal(*t)
	}
	return Null
}
