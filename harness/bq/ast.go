// Package bq holds a small abstract syntax for the BQL fragment the query
// monitors exercise, its rendering to statement text, a runner for the real
// pipeline (lexer -> parser -> planner -> Execute) and the reference evaluator
// of DESIGN.md Appendix A.
package bq

import (
	"fmt"
	"strings"
	"time"

	"github.com/google/badwolf/triple/literal"
	"github.com/google/badwolf/triple/node"
	"github.com/google/badwolf/triple/predicate"
)

// Term kinds.
const (
	KNode    = "node"
	KLit     = "lit"
	KPred    = "pred"    // fully specified predicate ("id"@[] or "id"@[T])
	KBinding = "binding" // ?x
	KPBind   = "pbind"   // "id"@[?t]
	KPBound  = "pbound"  // "id"@[lo,hi]
	KBlank   = "blank"   // _:label (construct templates only)
)

// Term is what stands in a subject, predicate or object position.
type Term struct {
	Kind    string
	Node    *node.Node
	Lit     *literal.Literal
	Pred    *predicate.Predicate
	Binding string
	ID      string
	TBind   string
	Lo, Hi  *time.Time
	// LoB / HiB are bound aliases: "id"@[?lo,?hi] takes its limits from the
	// time values of bindings introduced by earlier clauses.
	LoB, HiB string
	Label    string
}

// N, L, P, B, PB, PBd build terms.
func N(n *node.Node) Term           { return Term{Kind: KNode, Node: n} }
func L(l *literal.Literal) Term     { return Term{Kind: KLit, Lit: l} }
func P(p *predicate.Predicate) Term { return Term{Kind: KPred, Pred: p} }
func B(b string) Term               { return Term{Kind: KBinding, Binding: b} }
func PB(id, t string) Term          { return Term{Kind: KPBind, ID: id, TBind: t} }
func PBd(id string, lo, hi *time.Time) Term {
	return Term{Kind: KPBound, ID: id, Lo: lo, Hi: hi}
}
func Blank(label string) Term { return Term{Kind: KBlank, Label: label} }

// PBdB builds a bound whose limits are bindings ("" = open side).
func PBdB(id, lo, hi string) Term { return Term{Kind: KPBound, ID: id, LoB: lo, HiB: hi} }

// TimeText renders an instant the way statements spell it.
func TimeText(t time.Time) string { return t.Format(time.RFC3339Nano) }

// Text renders a term.
func (t Term) Text() string {
	switch t.Kind {
	case KNode:
		return t.Node.String()
	case KLit:
		return t.Lit.String()
	case KPred:
		return t.Pred.String()
	case KBinding:
		return t.Binding
	case KPBind:
		return fmt.Sprintf("%q@[%s]", t.ID, t.TBind)
	case KPBound:
		lo, hi := "", ""
		if t.Lo != nil {
			lo = TimeText(*t.Lo)
		}
		if t.Hi != nil {
			hi = TimeText(*t.Hi)
		}
		if t.LoB != "" {
			lo = t.LoB
		}
		if t.HiB != "" {
			hi = t.HiB
		}
		return fmt.Sprintf("%q@[%s,%s]", t.ID, lo, hi)
	case KBlank:
		return "_:" + t.Label
	}
	return "<?term>"
}

// Const reports whether the term is a constant value.
func (t Term) Const() bool { return t.Kind == KNode || t.Kind == KLit || t.Kind == KPred }

// Clause is one graph pattern clause.
type Clause struct {
	Optional             bool
	S                    Term
	SAs, SType, SID      string
	P                    Term
	PAs, PID, PAt        string
	O                    Term
	OAs, OType, OID, OAt string
}

func kw(sb *strings.Builder, k, b string) {
	if b != "" {
		sb.WriteString(" " + k + " " + b)
	}
}

// Text renders a clause (without OPTIONAL wrapper).
func (c Clause) body() string {
	var sb strings.Builder
	sb.WriteString(c.S.Text())
	kw(&sb, "AS", c.SAs)
	kw(&sb, "TYPE", c.SType)
	kw(&sb, "ID", c.SID)
	sb.WriteString(" " + c.P.Text())
	kw(&sb, "AS", c.PAs)
	kw(&sb, "ID", c.PID)
	kw(&sb, "AT", c.PAt)
	sb.WriteString(" " + c.O.Text())
	kw(&sb, "AS", c.OAs)
	kw(&sb, "TYPE", c.OType)
	kw(&sb, "ID", c.OID)
	kw(&sb, "AT", c.OAt)
	return sb.String()
}

// Text renders a clause.
func (c Clause) Text() string {
	if c.Optional {
		return "OPTIONAL { " + c.body() + " }"
	}
	return c.body()
}

// Bindings lists every binding the clause mentions (in order of appearance).
func (c Clause) Bindings() []string {
	var bs []string
	add := func(b string) {
		if b != "" {
			bs = append(bs, b)
		}
	}
	tb := func(t Term) {
		switch t.Kind {
		case KBinding:
			add(t.Binding)
		case KPBind:
			add(t.TBind)
		case KPBound:
			add(t.LoB)
			add(t.HiB)
		}
	}
	tb(c.S)
	add(c.SAs)
	add(c.SType)
	add(c.SID)
	tb(c.P)
	add(c.PAs)
	add(c.PID)
	add(c.PAt)
	tb(c.O)
	add(c.OAs)
	add(c.OType)
	add(c.OID)
	add(c.OAt)
	return bs
}

// Proj is one projection.
type Proj struct {
	Binding string
	Alias   string
	Op      string // "", "count", "countd", "sum"
}

// Out is the output binding name.
func (p Proj) Out() string {
	if p.Alias != "" {
		return p.Alias
	}
	return p.Binding
}

func (p Proj) text() string {
	switch p.Op {
	case "count":
		return "count(" + p.Binding + ") AS " + p.Alias
	case "countd":
		return "count(distinct " + p.Binding + ") AS " + p.Alias
	case "sum":
		return "sum(" + p.Binding + ") AS " + p.Alias
	}
	if p.Alias != "" {
		return p.Binding + " AS " + p.Alias
	}
	return p.Binding
}

// Order is one ORDER BY key.
type Order struct {
	Binding string
	Dir     string // "", "ASC", "DESC"
}

// Query is a SELECT.
type Query struct {
	Vars    []Proj
	Graphs  []string
	Clauses []Clause
	GroupBy []string
	OrderBy []Order
	Having  string // rendered expression
	Before  *time.Time
	After   *time.Time
	Between *[2]time.Time
	Limit   string // rendered literal
}

// PatternText renders the WHERE body.
func PatternText(cs []Clause) string {
	parts := make([]string, len(cs))
	for i, c := range cs {
		parts[i] = c.Text()
	}
	return strings.Join(parts, " . ")
}

func (q *Query) tail() string {
	var sb strings.Builder
	if len(q.GroupBy) > 0 {
		sb.WriteString(" GROUP BY " + strings.Join(q.GroupBy, ", "))
	}
	if len(q.OrderBy) > 0 {
		var ks []string
		for _, o := range q.OrderBy {
			k := o.Binding
			if o.Dir != "" {
				k += " " + o.Dir
			}
			ks = append(ks, k)
		}
		sb.WriteString(" ORDER BY " + strings.Join(ks, ", "))
	}
	if q.Having != "" {
		sb.WriteString(" HAVING " + q.Having)
	}
	switch {
	case q.Between != nil:
		sb.WriteString(" BETWEEN " + TimeText(q.Between[0]) + ", " + TimeText(q.Between[1]))
	case q.Before != nil:
		sb.WriteString(" BEFORE " + TimeText(*q.Before))
	case q.After != nil:
		sb.WriteString(" AFTER " + TimeText(*q.After))
	}
	if q.Limit != "" {
		sb.WriteString(" LIMIT " + q.Limit)
	}
	return sb.String()
}

// Text renders the SELECT statement.
func (q *Query) Text() string {
	var vs []string
	for _, v := range q.Vars {
		vs = append(vs, v.text())
	}
	return "SELECT " + strings.Join(vs, ", ") + " FROM " + strings.Join(q.Graphs, ", ") + " WHERE { " + PatternText(q.Clauses) + " }" + q.tail() + ";"
}

// OutBindings lists the output bindings of the query.
func (q *Query) OutBindings() []string {
	var bs []string
	for _, v := range q.Vars {
		bs = append(bs, v.Out())
	}
	return bs
}

// Bounds returns the closed global interval.
func (q *Query) Bounds() (lo, hi *time.Time) {
	switch {
	case q.Between != nil:
		return &q.Between[0], &q.Between[1]
	case q.Before != nil:
		return nil, q.Before
	case q.After != nil:
		return q.After, nil
	}
	return nil, nil
}
