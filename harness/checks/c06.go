package checks

import (
	"context"
	"crypto/sha256"
	"encoding/binary"
	"encoding/hex"
	"fmt"
	"math"
	"math/rand"
	"os"
	"os/exec"
	"sort"
	"strconv"
	"strings"
	"sync"
	"time"

	"bwverif/cv"
	"bwverif/gen"
	"bwverif/rt"

	"github.com/google/badwolf/storage/memory"
	"github.com/google/badwolf/triple"
	"github.com/google/badwolf/triple/literal"
	"github.com/google/badwolf/triple/node"
	"github.com/google/badwolf/triple/predicate"
)

// uval is a value with its canonical identity, a printable form, its UUID and
// the byte image that the documented UUID formula hashes (used only to
// attribute collisions to the known root causes, never to decide them).
type uval struct {
	kind  string // node, predicate, literal:<type>
	canon string
	show  string
	uuid  string
	image string
	get   func() []byte
}

func nodeVal(n *node.Node) uval {
	return uval{kind: "node", canon: cv.Node(n), show: n.String(), image: n.Type().String() + n.ID().String(), get: func() []byte { return n.UUID() }}
}

func predVal(p *predicate.Predicate) uval {
	img := string(p.ID())
	if p.Type() == predicate.Immutable {
		img += "immutable"
	} else {
		ta, _ := p.TimeAnchor()
		b := make([]byte, 16)
		binary.PutVarint(b, ta.UnixNano())
		img += string(b)
	}
	return uval{kind: "predicate", canon: cv.Pred(p), show: p.String(), image: img, get: func() []byte { return p.UUID() }}
}

func litVal(l *literal.Literal) uval {
	var img string
	switch v := l.Interface().(type) {
	case bool:
		img = fmt.Sprint(v)
	case int64:
		b := make([]byte, binary.MaxVarintLen64)
		n := binary.PutVarint(b, v)
		if n < 8 {
			n = 8
		}
		img = string(b[:n])
	case float64:
		b := make([]byte, 8)
		binary.LittleEndian.PutUint64(b, math.Float64bits(v))
		img = string(b)
	case string:
		img = v
	case []byte:
		img = string(v)
	}
	return uval{kind: "literal:" + l.Type().String(), canon: cv.Lit(l), show: l.String(), image: img, get: func() []byte { return l.UUID() }}
}

func objVal(o *triple.Object) uval {
	var u uval
	if n, err := o.Node(); err == nil {
		u = nodeVal(n)
	} else if p, err := o.Predicate(); err == nil {
		u = predVal(p)
	} else if l, err := o.Literal(); err == nil {
		u = litVal(l)
	}
	u.get = func() []byte { return o.UUID() }
	return u
}

// collisionClass attributes a UUID collision between two different values to a
// syntactic class of the pair.
func collisionClass(a, b uval) string {
	ka, kb := a.kind, b.kind
	if ka > kb {
		ka, kb = kb, ka
	}
	if a.image == b.image {
		switch {
		case a.kind == "node" && b.kind == "node":
			return "node-type-id-boundary"
		case strings.HasPrefix(a.kind, "literal:") && strings.HasPrefix(b.kind, "literal:") && a.kind != b.kind:
			return "literal-same-bytes-different-type"
		case a.kind != b.kind:
			return "object-same-bytes-different-kind"
		}
	}
	return "other-" + ka + "~" + kb
}

// analyse groups a corpus by UUID and by canonical value and reports
// collisions (different values, equal UUID) and splits (equal values,
// different UUID). It returns the number of pairs this decides.
func analyse(r *rt.Rec, scope string, vals []uval) int {
	byUUID := map[string][]int{}
	byCanon := map[string][]int{}
	for i := range vals {
		v := &vals[i]
		if guard(r, "UUID/"+v.kind, v.show, func() { v.uuid = hex.EncodeToString(v.get()) }) {
			v.uuid = fmt.Sprintf("panic-%d", i)
			continue
		}
		if len(v.uuid) != 32 {
			r.Violation("uuid-undefined/"+v.kind, fmt.Sprintf("UUID of %s has %d hex digits", v.show, len(v.uuid)), v.show)
		}
		byUUID[v.uuid] = append(byUUID[v.uuid], i)
		byCanon[v.kind+"\x00"+v.canon] = append(byCanon[v.kind+"\x00"+v.canon], i)
	}
	// "the same on every call": every value again, in the reverse order (what
	// was computed just before differs from the first pass), twice in a row
	for i := len(vals) - 1; i >= 0; i-- {
		v := &vals[i]
		if strings.HasPrefix(v.uuid, "panic-") {
			continue
		}
		var again, again2 string
		if guard(r, "UUID/"+v.kind, v.show, func() { again = hex.EncodeToString(v.get()); again2 = hex.EncodeToString(v.get()) }) {
			continue
		}
		if again != v.uuid || again2 != v.uuid {
			r.Violation("uuid-nondeterministic/sequential/"+v.kind, fmt.Sprintf("the UUID of %s changes from call to call: %s, then %s and %s", v.show, v.uuid, again, again2), v.show)
			break
		}
	}
	for _, idx := range byUUID {
		first := vals[idx[0]]
		for _, j := range idx[1:] {
			o := vals[j]
			if o.kind == first.kind && o.canon == first.canon {
				continue
			}
			r.Violation(collisionClass(first, o)+"/uuid-collision/"+scope, fmt.Sprintf("different values share UUID %s: %s (%s) and %s (%s)", first.uuid, first.show, first.kind, o.show, o.kind),
				map[string]string{"a": first.show, "b": o.show, "a_kind": first.kind, "b_kind": o.kind})
			if strings.Contains(first.show+o.show, "+") || first.show != o.show {
				r.Nontrivial("col:" + first.show + "|" + o.show)
			}
		}
	}
	for _, idx := range byCanon {
		first := vals[idx[0]]
		for _, j := range idx[1:] {
			o := vals[j]
			if o.uuid != first.uuid {
				cls := first.kind
				if first.show != o.show {
					cls += "/other-printed-form"
				}
				r.Violation("uuid-split/"+scope+"/"+cls, fmt.Sprintf("equal values have different UUIDs: %s (%s) and %s (%s)", first.show, first.uuid, o.show, o.uuid),
					map[string]string{"a": first.show, "b": o.show})
			} else if first.show != o.show {
				r.Nontrivial("eq:" + first.show + "|" + o.show)
			}
		}
	}
	return len(vals) * (len(vals) - 1) / 2
}

func c06Nodes(rng *rand.Rand, n int) []*node.Node {
	var res []*node.Node
	// type/id boundary family
	for _, t := range []string{"/a", "/a/b", "/a/b/c", "/u", "/u/x"} {
		for _, id := range []string{"c", "/bc", "b/c", "/b/c", "x", "/x", "a", "/u", "/xa"} {
			res = append(res, gen.MustNode(t, id))
		}
	}
	res = append(res, gen.MustNode("/a", "b c"), gen.MustNode("/a", "bc"), gen.MustNode("/a", "b  c"), gen.MustNode("/A", "bc"))
	// long types and ids (lengths around powers of two) that agree on a long
	// prefix and differ at the very end, or in length only
	for _, tl := range []int{3, 31, 40, 63, 64, 65, 130} {
		ty := "/" + strings.Repeat("t", tl-1)
		for _, il := range []int{1, 8, 30, 63, 64, 65, 127, 128, 129, 300} {
			base := strings.Repeat("0", il-1)
			res = append(res, gen.MustNode(ty, base+"1"), gen.MustNode(ty, base+"2"), gen.MustNode(ty, base+"12"))
		}
	}
	for i := 0; i < n; i++ {
		res = append(res, gen.HNode(rng))
	}
	return res
}

var c06T0 = time.Date(2016, 3, 4, 5, 6, 7, 0, time.UTC)

func c06Preds(rng *rand.Rand, n int) []*predicate.Predicate {
	var res []*predicate.Predicate
	ids := []string{"p", "q", "pimmutable", "immutable", "p\x00", "p\x80\x01", "pi", "mmutable"}
	times := []time.Time{c06T0, c06T0.Add(1), c06T0.Add(-1), c06T0.Add(time.Second), c06T0.In(time.FixedZone("", 3600)), c06T0.In(time.FixedZone("", -7*3600)),
		c06T0.Add(1).In(time.FixedZone("", 5*3600+1800)), time.Unix(0, 0).UTC(), time.Unix(0, 0).In(time.FixedZone("", 60)), time.Unix(0, -1).UTC(), time.Unix(0, 127), time.Unix(0, 128), time.Unix(0, 16383), time.Unix(0, 16384)}
	// anchors outside the int64-nanosecond range, each in several zones
	for _, far := range []time.Time{gen.TFarFuture, gen.TFarPast, time.Date(1, 1, 1, 0, 0, 0, 0, time.UTC), time.Date(9999, 12, 31, 23, 59, 59, 999999999, time.UTC), time.Date(1492, 10, 12, 8, 0, 0, 5, time.UTC), time.Date(3001, 2, 3, 4, 5, 6, 7, time.UTC)} {
		times = append(times, far, far.In(time.FixedZone("", 3600)), far.In(time.FixedZone("", -7*3600)), far.In(time.FixedZone("", 5*3600+1800)), far.Add(1))
	}
	for _, id := range ids {
		res = append(res, gen.MustImm(id))
		for _, t := range times {
			res = append(res, gen.MustTemp(id, t))
		}
	}
	// ids ending in bytes that look like the varint of an anchor
	b := make([]byte, 16)
	binary.PutVarint(b, c06T0.UnixNano())
	res = append(res, gen.MustImm("p"+string(b)), gen.MustTemp("p"+string(b[:3]), c06T0), gen.MustImm(string(b)))
	for _, l := range []int{15, 16, 17, 63, 64, 65, 255, 256, 257} {
		base := strings.Repeat("i", l-1)
		res = append(res, gen.MustImm(base+"a"), gen.MustImm(base+"b"), gen.MustTemp(base+"a", c06T0), gen.MustTemp(base+"b", c06T0), gen.MustTemp(base+"ab", c06T0))
	}
	// boundary shifts between the id and what follows it, under several
	// hypotheses about how the rest is encoded (a trimmed varint, an unsigned
	// varint, decimal text): (id, anchor) against (id + first k bytes of the
	// encoding, the anchor that encodes to the remaining bytes), and against
	// the immutable predicate whose marker starts in the id
	type codec struct {
		enc func(int64) []byte
		dec func([]byte) (int64, bool)
	}
	codecs := []codec{
		{func(v int64) []byte { b := make([]byte, 16); return b[:binary.PutVarint(b, v)] },
			func(b []byte) (int64, bool) { v, k := binary.Varint(b); return v, k == len(b) && k > 0 }},
		{func(v int64) []byte { b := make([]byte, 16); return b[:binary.PutUvarint(b, uint64(v))] },
			func(b []byte) (int64, bool) { v, k := binary.Uvarint(b); return int64(v), k == len(b) && k > 0 }},
		{func(v int64) []byte { return []byte(strconv.FormatInt(v, 10)) },
			func(b []byte) (int64, bool) { v, err := strconv.ParseInt(string(b), 10, 64); return v, err == nil }},
	}
	shiftTimes := append([]time.Time{}, times...)
	for i := 0; i < 6; i++ {
		shiftTimes = append(shiftTimes, time.Unix(0, rng.Int63n(1<<61)-(1<<60)).UTC())
	}
	for _, cd := range codecs {
		for _, id := range []string{"p", "foo"} {
			for _, t := range shiftTimes {
				e := cd.enc(t.UnixNano())
				res = append(res, gen.MustTemp(id, t))
				for k := 1; k < len(e); k++ {
					if v, ok := cd.dec(e[k:]); ok && string(cd.enc(v)) == string(e[k:]) {
						res = append(res, gen.MustTemp(id+string(e[:k]), time.Unix(0, v).UTC()))
					}
				}
			}
			const marker = "immutable"
			res = append(res, gen.MustImm(id))
			for k := 1; k < len(marker); k++ {
				if v, ok := cd.dec([]byte(marker[k:])); ok && string(cd.enc(v)) == marker[k:] {
					res = append(res, gen.MustTemp(id+marker[:k], time.Unix(0, v).UTC()))
				}
			}
		}
	}
	for i := 0; i < n; i++ {
		p := gen.HPred(rng)
		res = append(res, p)
		if ta, err := p.TimeAnchor(); err == nil && i%3 == 0 {
			// the same instant in another zone, and a neighbour instant
			res = append(res, gen.MustTemp(string(p.ID()), ta.In(time.FixedZone("", (rng.Intn(1560)-720)*60))))
			res = append(res, gen.MustTemp(string(p.ID()), ta.Add(time.Duration(1+rng.Intn(3)))))
			res = append(res, gen.MustImm(string(p.ID())))
		}
	}
	return res
}

func c06Lits(rng *rand.Rand, n int) []*literal.Literal {
	var res []*literal.Literal
	add := func(t literal.Type, v interface{}) { res = append(res, gen.MustLit(t, v)) }
	// same byte image under different types
	add(literal.Text, "abc")
	add(literal.Blob, []byte("abc"))
	add(literal.Bool, true)
	add(literal.Text, "true")
	add(literal.Bool, false)
	add(literal.Text, "false")
	add(literal.Blob, []byte("false"))
	add(literal.Int64, int64(0))
	add(literal.Float64, 0.0)
	add(literal.Float64, math.Copysign(0, -1))
	add(literal.Blob, make([]byte, 8))
	add(literal.Text, string(make([]byte, 8)))
	add(literal.Text, "")
	add(literal.Blob, []byte{})
	for _, v := range []int64{1, -1, 5, 64, -65, 1 << 20, 1<<55 - 1, 1 << 55, -(1 << 55), -(1 << 55) - 1, math.MaxInt64, math.MinInt64} {
		add(literal.Int64, v)
		b := make([]byte, binary.MaxVarintLen64)
		k := binary.PutVarint(b, v)
		if k < 8 {
			k = 8
		}
		add(literal.Blob, append([]byte{}, b[:k]...))
		add(literal.Float64, math.Float64frombits(binary.LittleEndian.Uint64(b[:8])))
	}
	for _, f := range []float64{1, -1, 0.5, 2.5, math.Inf(1), math.Inf(-1), math.MaxFloat64, math.SmallestNonzeroFloat64} {
		add(literal.Float64, f)
		b := make([]byte, 8)
		binary.LittleEndian.PutUint64(b, math.Float64bits(f))
		add(literal.Blob, b)
	}
	// long texts and blobs that differ in their last byte or in length only
	for _, l := range []int{15, 16, 17, 63, 64, 65, 255, 256, 257, 4095, 4096, 4097} {
		base := strings.Repeat("x", l-1)
		add(literal.Text, base+"a")
		add(literal.Text, base+"b")
		add(literal.Text, base+"ab")
		add(literal.Blob, []byte(base+"a"))
		add(literal.Blob, []byte(base+"c"))
	}
	for i := 0; i < n; i++ {
		res = append(res, gen.HLit(rng, false))
	}
	return res
}

func c06Corpus(r *rt.Rec, which int, rng *rand.Rand, n int) {
	switch which {
	case 0:
		var vs []uval
		for _, x := range c06Nodes(rng, n) {
			vs = append(vs, nodeVal(x))
			// the same value obtained another way: printed and parsed back (a
			// minted blank node and its parsed twin are one node)
			if y, err := node.Parse(x.String()); err == nil && cv.Node(y) == cv.Node(x) {
				vs = append(vs, nodeVal(y))
			}
		}
		for i := 0; i < 20; i++ {
			b := node.NewBlankNode()
			vs = append(vs, nodeVal(b))
			if y, err := node.Parse(b.String()); err == nil {
				vs = append(vs, nodeVal(y))
			}
			if y, err := node.NewNodeFromStrings(b.Type().String(), b.ID().String()); err == nil {
				vs = append(vs, nodeVal(y))
			}
			// labels that spell the same hexadecimal digits differently are
			// different ids
			id := b.ID().String()
			for _, alt := range []string{strings.ToUpper(id), strings.ReplaceAll(id, "-", ""), "urn:uuid:" + id, "{" + id + "}"} {
				if y, err := node.NewNodeFromStrings("/_", alt); err == nil {
					vs = append(vs, nodeVal(y))
				}
			}
		}
		r.Eval(analyse(r, "node", vs))
		r.Sample(map[string]string{"kind": "node", "example": vs[len(vs)/2].show, "uuid": vs[len(vs)/2].uuid})
	case 1:
		var vs []uval
		for _, x := range c06Preds(rng, n) {
			vs = append(vs, predVal(x))
			if y, err := predicate.Parse(x.String()); err == nil && cv.Pred(y) == cv.Pred(x) {
				vs = append(vs, predVal(y))
			}
		}
		r.Eval(analyse(r, "predicate", vs))
		r.Sample(map[string]string{"kind": "predicate", "example": vs[len(vs)/2].show, "uuid": vs[len(vs)/2].uuid})
	case 2:
		var vs []uval
		for _, x := range c06Lits(rng, n) {
			vs = append(vs, litVal(x))
			if y, err := literal.DefaultBuilder().Parse(x.String()); err == nil && cv.Lit(y) == cv.Lit(x) {
				vs = append(vs, litVal(y))
			}
		}
		r.Eval(analyse(r, "literal", vs))
	case 3:
		// objects across kinds, including values whose byte images coincide
		var vs []uval
		for _, x := range c06Nodes(rng, n/3) {
			vs = append(vs, objVal(triple.NewNodeObject(x)))
			img := x.Type().String() + x.ID().String()
			vs = append(vs, objVal(triple.NewLiteralObject(gen.MustLit(literal.Text, img))))
		}
		for _, x := range c06Preds(rng, n/3) {
			vs = append(vs, objVal(triple.NewPredicateObject(x)))
			if x.Type() == predicate.Immutable {
				vs = append(vs, objVal(triple.NewLiteralObject(gen.MustLit(literal.Text, string(x.ID())+"immutable"))))
			}
		}
		for _, x := range c06Lits(rng, n/3) {
			vs = append(vs, objVal(triple.NewLiteralObject(x)))
		}
		r.Eval(analyse(r, "object", vs))
	case 4:
		c06Triples(r, rng, n)
	}
}

func c06Triples(r *rt.Rec, rng *rand.Rand, n int) {
	// triples over small pools so that pairs differ in exactly one component
	ns := []*node.Node{gen.MustNode("/u", "a"), gen.MustNode("/u", "b"), gen.MustNode("/t", "a"), gen.MustNode("/a/b", "c"), gen.MustNode("/a", "/bc")}
	ps := []*predicate.Predicate{gen.MustImm("p"), gen.MustImm("q"), gen.MustTemp("p", c06T0), gen.MustTemp("p", c06T0.In(time.FixedZone("", 3600))), gen.MustTemp("p", c06T0.Add(1)), gen.MustTemp("q", c06T0)}
	os := []*triple.Object{triple.NewNodeObject(ns[0]), triple.NewNodeObject(ns[3]), triple.NewNodeObject(ns[4]), triple.NewPredicateObject(ps[0]), triple.NewPredicateObject(ps[2]), triple.NewPredicateObject(ps[3]),
		triple.NewLiteralObject(gen.MustLit(literal.Text, "abc")), triple.NewLiteralObject(gen.MustLit(literal.Blob, []byte("abc"))), triple.NewLiteralObject(gen.MustLit(literal.Int64, int64(5))),
		triple.NewLiteralObject(gen.MustLit(literal.Text, "pimmutable")), triple.NewLiteralObject(gen.MustLit(literal.Text, "/ua"))}
	// numbers that a lossy rendering conflates: equal to six decimals, equal as
	// float32, equal as float64 (int64 above 2^53), and the ends of the ranges
	for _, f := range []float64{1.0000001, 1.0000002, 3e-9, 4e-9, 1e-300, 0, 1, 1.0000000000000002, 20.25, 20.250000001, math.MaxFloat64, math.SmallestNonzeroFloat64} {
		os = append(os, triple.NewLiteralObject(gen.MustLit(literal.Float64, f)))
	}
	for _, v := range []int64{9007199254740992, 9007199254740993, math.MaxInt64, math.MaxInt64 - 1, math.MinInt64, math.MinInt64 + 1, 1 << 55, 1 << 56} {
		os = append(os, triple.NewLiteralObject(gen.MustLit(literal.Int64, v)))
	}
	var ts []*triple.Triple
	for _, s := range ns {
		for _, p := range ps {
			for _, o := range os {
				ts = append(ts, gen.MustTriple(s, p, o))
			}
		}
	}
	for i := 0; i < n/4; i++ {
		ts = append(ts, gen.HTriple(rng, false))
	}
	type tv struct {
		t     *triple.Triple
		canon string
		parts [3]uval
	}
	var tvs []tv
	var vs []uval
	for _, t := range ts {
		t := t
		x := tv{t: t, canon: cv.Triple(t), parts: [3]uval{nodeVal(t.Subject()), predVal(t.Predicate()), objVal(t.Object())}}
		tvs = append(tvs, x)
		vs = append(vs, uval{kind: "triple", canon: x.canon, show: t.String(), image: x.parts[0].image + "\x00" + x.parts[1].image + "\x00" + x.parts[2].image, get: func() []byte { return t.UUID() }})
	}
	// UUID-level analysis; component collisions are attributed to their class
	byUUID := map[string][]int{}
	for i := range vs {
		v := &vs[i]
		if guard(r, "UUID/triple", v.show, func() { v.uuid = hex.EncodeToString(v.get()) }) {
			continue
		}
		byUUID[v.uuid] = append(byUUID[v.uuid], i)
	}
	compClass := func(a, b tv) string {
		for k := 0; k < 3; k++ {
			if a.parts[k].canon != b.parts[k].canon || a.parts[k].kind != b.parts[k].kind {
				return collisionClass(a.parts[k], b.parts[k])
			}
		}
		return "?"
	}
	for _, idx := range byUUID {
		for _, j := range idx[1:] {
			if vs[j].canon != vs[idx[0]].canon {
				r.Violation(compClass(tvs[idx[0]], tvs[j])+"/uuid-collision/triple", fmt.Sprintf("different triples share a UUID: %s and %s", vs[idx[0]].show, vs[j].show),
					map[string]string{"a": vs[idx[0]].show, "b": vs[j].show})
			}
		}
	}
	// Equal, pairwise
	pairs := 0
	for i := range tvs {
		for j := i; j < len(tvs); j++ {
			a, b := tvs[i], tvs[j]
			pairs++
			var eq bool
			if guard(r, "Triple.Equal", a.t.String()+" | "+b.t.String(), func() { eq = a.t.Equal(b.t) }) {
				continue
			}
			want := a.canon == b.canon
			if eq != want {
				cls := compClass(a, b) + "/triple-equal-but-different"
				if want {
					cls = "triple-unequal-but-same"
				}
				r.Violation(cls, fmt.Sprintf("Triple.Equal=%v for %s and %s", eq, a.t, b.t), map[string]string{"a": a.t.String(), "b": b.t.String()})
			}
			if want && i != j {
				r.Nontrivial("teq:" + a.t.String() + "|" + b.t.String())
			}
			if !want {
				diff := 0
				for k := 0; k < 3; k++ {
					if a.parts[k].canon != b.parts[k].canon || a.parts[k].kind != b.parts[k].kind {
						diff++
					}
				}
				if diff == 1 && i < 400 && j < 400 {
					r.Nontrivial("tne:" + a.t.String() + "|" + b.t.String())
				}
			}
		}
	}
	r.Eval(pairs)
	r.Sample(map[string]string{"kind": "triple", "example": ts[7].String(), "uuid": vs[7].uuid})
}

// c06Defined sweeps int64 / float64 values: UUID defined, injective within the type.
func c06Defined(r *rt.Rec, part int, rng *rand.Rand, n int) {
	seenI := map[string]int64{}
	seenF := map[string]uint64{}
	doI := func(v int64) {
		l := gen.MustLit(literal.Int64, v)
		var u string
		if guard(r, "UUID/literal:int64", fmt.Sprint(v), func() { u = string(l.UUID()) }) {
			return
		}
		if w, ok := seenI[u]; ok && w != v {
			r.Violation("uuid-collision/literal/int64~int64", fmt.Sprintf("int64 %d and %d share a UUID", v, w), nil)
		}
		seenI[u] = v
	}
	doF := func(bits uint64) {
		f := math.Float64frombits(bits)
		if math.IsNaN(f) {
			return
		}
		l := gen.MustLit(literal.Float64, f)
		var u string
		if guard(r, "UUID/literal:float64", fmt.Sprint(f), func() { u = string(l.UUID()) }) {
			return
		}
		if w, ok := seenF[u]; ok && w != bits {
			r.Violation("uuid-collision/literal/float64~float64", fmt.Sprintf("float64 bits %x and %x share a UUID", bits, w), nil)
		}
		seenF[u] = bits
	}
	cnt := 0
	if part == 0 {
		for k := uint(0); k < 64; k++ {
			for _, d := range []int64{-1, 0, 1} {
				v := int64(1)<<k + d
				doI(v)
				doI(-v)
				cnt += 2
			}
		}
		for e := uint64(0); e < 2047; e++ {
			for _, m := range []uint64{0, 1, 1<<52 - 1, 1 << 51} {
				doF(e<<52 | m)
				doF(1<<63 | e<<52 | m)
				cnt += 2
			}
		}
		r.NontrivialDistinct(64 * 6)
	}
	for i := 0; i < n; i++ {
		doI(int64(rng.Uint64()))
		doF(rng.Uint64())
		cnt += 2
	}
	r.Eval(cnt)
}

// c06Concurrent recomputes UUIDs in 16 goroutines and compares with the
// sequential result (pooled buffers must not leak between goroutines).
func c06Concurrent(r *rt.Rec, rng *rand.Rand, n int) {
	var ts []*triple.Triple
	for i := 0; i < n; i++ {
		ts = append(ts, gen.HTriple(rng, false))
	}
	want := make([]string, len(ts))
	for i, t := range ts {
		want[i] = string(t.UUID()) + string(t.Subject().UUID()) + string(t.Predicate().UUID()) + string(t.Object().UUID())
	}
	var wg sync.WaitGroup
	var mu sync.Mutex
	bad := 0
	for g := 0; g < 16; g++ {
		wg.Add(1)
		go func(g int) {
			defer wg.Done()
			for k := 0; k < len(ts); k++ {
				i := (k*7 + g*13) % len(ts)
				t := ts[i]
				got := string(t.UUID()) + string(t.Subject().UUID()) + string(t.Predicate().UUID()) + string(t.Object().UUID())
				if got != want[i] {
					mu.Lock()
					bad++
					if bad == 1 {
						r.Violation("uuid-nondeterministic/concurrent", "UUID computed concurrently differs from the sequential value for "+t.String(), t.String())
					}
					mu.Unlock()
				}
			}
		}(g)
	}
	wg.Wait()
	r.Eval(16 * len(ts))
	r.Count("concurrent_uuid_recomputations", 16*len(ts))
	r.NontrivialDistinct(1)
}

func c06DigestCorpus() string {
	rng := gen.Rng(12345, "c06digest", 0)
	h := sha256.New()
	for i := 0; i < 3000; i++ {
		t := gen.HTriple(rng, false)
		if t.Subject().Type().String() == "/_" {
			continue // blank node ids are per-process by design
		}
		if n, err := t.Object().Node(); err == nil && n.Type().String() == "/_" {
			continue
		}
		h.Write([]byte(t.String()))
		h.Write(t.UUID())
		h.Write(t.Subject().UUID())
		h.Write(t.Predicate().UUID())
		h.Write(t.Predicate().PartialUUID())
		h.Write(t.Object().UUID())
	}
	return hex.EncodeToString(h.Sum(nil))
}

func c06Processes(r *rt.Rec) {
	mine := c06DigestCorpus()
	seen := map[string]int{mine: 1}
	for i := 0; i < 3; i++ {
		cmd := exec.Command(os.Args[0], "-aux", "c06digest")
		cmd.Env = append(os.Environ(), fmt.Sprintf("TZ=%s", []string{"UTC", "Asia/Tokyo", "America/Los_Angeles"}[i]), fmt.Sprintf("GOMAXPROCS=%d", 1+i*3))
		out, err := cmd.Output()
		if err != nil {
			r.Inconclusive("digest child failed: " + err.Error())
			continue
		}
		seen[strings.TrimSpace(string(out))]++
		r.Eval(1)
	}
	r.Count("processes_compared", len(seen)-1+3)
	if len(seen) != 1 {
		var ds []string
		for d := range seen {
			ds = append(ds, d[:16])
		}
		sort.Strings(ds)
		r.Violation("uuid-nondeterministic/process", "UUID digests of a fixed corpus differ between processes: "+strings.Join(ds, ","), ds)
	}
	r.NontrivialDistinct(1)
	r.Sample(map[string]string{"digest_of_3000_triples": mine})
}

// c06Store: after AddTriples(A), Exist(B) must be false for a near-colliding B.
func c06Store(r *rt.Rec) {
	ctx := context.Background()
	p := gen.MustImm("p")
	s := gen.MustNode("/u", "a")
	type pair struct {
		a, b *triple.Triple
		cls  string
	}
	lo := func(t literal.Type, v interface{}) *triple.Object { return triple.NewLiteralObject(gen.MustLit(t, v)) }
	pairs := []pair{
		{gen.MustTriple(s, p, lo(literal.Text, "abc")), gen.MustTriple(s, p, lo(literal.Blob, []byte("abc"))), "literal-same-bytes-different-type"},
		{gen.MustTriple(s, p, lo(literal.Bool, true)), gen.MustTriple(s, p, lo(literal.Text, "true")), "literal-same-bytes-different-type"},
		{gen.MustTriple(s, p, lo(literal.Int64, int64(0))), gen.MustTriple(s, p, lo(literal.Float64, 0.0)), "literal-same-bytes-different-type"},
		{gen.MustTriple(gen.MustNode("/a/b", "c"), p, triple.NewNodeObject(s)), gen.MustTriple(gen.MustNode("/a", "/bc"), p, triple.NewNodeObject(s)), "node-type-id-boundary"},
		{gen.MustTriple(s, p, triple.NewNodeObject(gen.MustNode("/a/b", "c"))), gen.MustTriple(s, p, triple.NewNodeObject(gen.MustNode("/a", "/bc"))), "node-type-id-boundary"},
		{gen.MustTriple(s, p, triple.NewNodeObject(gen.MustNode("/u", "b"))), gen.MustTriple(s, p, lo(literal.Text, "/ub")), "object-same-bytes-different-kind"},
		{gen.MustTriple(s, p, triple.NewPredicateObject(gen.MustImm("q"))), gen.MustTriple(s, p, lo(literal.Text, "qimmutable")), "object-same-bytes-different-kind"},
		{gen.MustTriple(s, p, lo(literal.Int64, int64(5))), gen.MustTriple(s, p, lo(literal.Int64, int64(-5))), "literal/int64-sign"},
		{gen.MustTriple(s, p, lo(literal.Float64, 0.0)), gen.MustTriple(s, p, lo(literal.Float64, math.Copysign(0, -1))), "literal/float64-signed-zero"},
		{gen.MustTriple(s, gen.MustTemp("p", c06T0), triple.NewNodeObject(s)), gen.MustTriple(s, p, triple.NewNodeObject(s)), "predicate/kind"},
		{gen.MustTriple(s, gen.MustTemp("p", c06T0), triple.NewNodeObject(s)), gen.MustTriple(s, gen.MustTemp("p", c06T0.Add(1)), triple.NewNodeObject(s)), "predicate/instant"},
		{gen.MustTriple(s, p, lo(literal.Text, "ab")), gen.MustTriple(s, p, lo(literal.Text, "abc")), "literal/text-prefix"},
	}
	for _, pr := range pairs {
		for dir := 0; dir < 2; dir++ {
			a, b := pr.a, pr.b
			if dir == 1 {
				a, b = b, a
			}
			st := memory.NewStore()
			g, _ := st.NewGraph(ctx, "?g")
			r.Note("store-collision " + a.String() + " vs " + b.String())
			g.AddTriples(ctx, []*triple.Triple{a})
			ea, _ := g.Exist(ctx, a)
			eb, _ := g.Exist(ctx, b)
			r.Eval(1)
			if !ea {
				r.Violation("exist-missing/"+pr.cls, "Exist is false for a triple that was just added: "+a.String(), nil)
			}
			if eb {
				r.Violation(pr.cls+"/exist-conflation", fmt.Sprintf("after adding %s, Exist(%s) is true", a, b), map[string]string{"added": a.String(), "asked": b.String()})
			}
			// same instant in another zone is the same triple
			r.Nontrivial(a.String() + "|" + b.String())
		}
	}
	// zone: the same instant must be found
	st := memory.NewStore()
	g, _ := st.NewGraph(ctx, "?g")
	a := gen.MustTriple(s, gen.MustTemp("p", c06T0), triple.NewNodeObject(s))
	b := gen.MustTriple(s, gen.MustTemp("p", c06T0.In(time.FixedZone("", 3600))), triple.NewNodeObject(s))
	g.AddTriples(ctx, []*triple.Triple{a})
	if ok, _ := g.Exist(ctx, b); !ok {
		r.Violation("exist-missing/predicate/same-instant-other-zone", "a triple anchored at the same instant in another zone is not found", nil)
	}
	r.Eval(1)
}

func init() {
	Aux["c06digest"] = func([]string) int {
		fmt.Println(c06DigestCorpus())
		return 0
	}
	register(&rt.Check{
		ID:    "C06",
		Level: "exploration",
		Rule: "per kind (node, predicate, literal, object across kinds, triple) a corpus of adversarial families (same byte image under different literal types, type/id boundary shifts, ids ending in 'immutable' or varint-like bytes, immutable vs temporal, same instant in several zones, instants 1ns apart) plus hostile random values; all pairs are decided by grouping on UUID and on the accessor-based canonical value; Triple.Equal pairwise; int64/float64 sweeps (all +-2^k, +-2^k+-1, every exponent with extreme mantissas, random bit patterns) for definedness and same-type injectivity; UUIDs recomputed in 16 goroutines under -race; digests compared across 3 extra processes (other TZ, GOMAXPROCS); Exist after adding a near-colliding triple; " +
			"non-trivial = pair of values that are equal with different printed forms, or that collide, or triples differing in exactly one component; distinct by the two printed forms",
		Assume: []string{"canonical identity from accessors", "the byte images used to classify a collision are used for attribution only", "processes: 4 compared, not all"},
		Floor:  500,
		Phases: func(tier string, seed int64) []rt.Phase {
			n, sweep, conc := 1500, 6000, 800
			if tier == "thorough" {
				n, sweep, conc = 6000, 120000, 8000
			}
			return []rt.Phase{
				{Name: "corpus", N: 5, Run: func(i int, r *rt.Rec) { c06Corpus(r, i, gen.Rng(seed, "c06c", i), n) }},
				{Name: "defined", N: 16, Run: func(i int, r *rt.Rec) { c06Defined(r, i, gen.Rng(seed, "c06d", i), sweep) }},
				{Name: "concurrent", N: 4, Race: true, Run: func(i int, r *rt.Rec) { c06Concurrent(r, gen.Rng(seed, "c06r", i), conc) }},
				{Name: "processes", N: 1, Run: func(i int, r *rt.Rec) { c06Processes(r) }},
				{Name: "store", N: 1, Run: func(i int, r *rt.Rec) { c06Store(r) }},
			}
		},
	})
}
