package checks

import (
	"context"
	"fmt"
	"math/rand"
	"sort"
	"strings"

	"bwverif/cv"
	"bwverif/gen"
	"bwverif/ref"
	"bwverif/rt"

	"github.com/google/badwolf/storage"
	"github.com/google/badwolf/storage/memory"
	"github.com/google/badwolf/triple"
	"github.com/google/badwolf/triple/node"
	"github.com/google/badwolf/triple/predicate"
)

// lookupArgs builds the argument pools for a universe: stored and never-stored
// values, query predicates of both kinds, every anchor and T2 in another zone.
func lookupArgs(univ []*triple.Triple) (ss []*node.Node, ps []*predicate.Predicate, os []*triple.Object) {
	seenS, seenP, seenO := map[string]bool{}, map[string]bool{}, map[string]bool{}
	for _, t := range univ {
		if k := cv.Node(t.Subject()); !seenS[k] {
			seenS[k] = true
			ss = append(ss, t.Subject())
		}
		if k := cv.Obj(t.Object()); !seenO[k] {
			seenO[k] = true
			os = append(os, t.Object())
		}
		id := string(t.Predicate().ID())
		if !seenP[id] {
			seenP[id] = true
			ps = append(ps, gen.MustImm(id), gen.MustTemp(id, gen.T1), gen.MustTemp(id, gen.T2), gen.MustTemp(id, gen.T2Z), gen.MustTemp(id, gen.T3), gen.MustTemp(id, gen.T0), gen.MustTemp(id, gen.TFarFuture), gen.MustTemp(id, gen.TFarPast))
		}
	}
	ss = append(ss, gen.AbsentNode)
	ps = append(ps, gen.MustImm("absent"), gen.MustTemp("absent", gen.T1))
	os = append(os, triple.NewNodeObject(gen.AbsentNode))
	return
}

// allQueries enumerates every lookup call over the pools.
func allQueries(univ []*triple.Triple) []ref.Query {
	ss, ps, os := lookupArgs(univ)
	var qs []ref.Query
	for _, m := range ref.Methods {
		us, up, uo := ref.Uses(m)
		S, P, O := []*node.Node{nil}, []*predicate.Predicate{nil}, []*triple.Object{nil}
		if us {
			S = ss
		}
		if up {
			P = ps
		}
		if uo {
			O = os
		}
		for _, s := range S {
			for _, p := range P {
				for _, o := range O {
					qs = append(qs, ref.Query{Method: m, S: s, P: p, O: o})
				}
			}
		}
	}
	return qs
}

// queryClass is the syntactic class of a lookup for violation keys.
func queryClass(q ref.Query, state []*triple.Triple) string {
	c := q.Method
	if q.P != nil {
		kind := "immutable-query"
		if q.P.Type() == predicate.Temporal {
			kind = "temporal-query"
		}
		// does the state hold a triple with the same id but another kind?
		other := false
		for _, t := range state {
			if t.Predicate().ID() == q.P.ID() && t.Predicate().Type() != q.P.Type() {
				other = true
			}
		}
		if other {
			kind += "+other-kind-stored"
		}
		c += "/" + kind
	}
	return c
}

func c02Histories(r *rt.Rec, rng *rand.Rand, n, steps, third int) {
	ctx := context.Background()
	for h := 0; h < n; h++ {
		univ := gen.Universe(rng, 12)
		ops := genHistory(rng, steps, len(univ))
		qs := allQueries(univ)
		st := memory.NewStore()
		m := ref.Store{}
		upto := 0
		hist := func() interface{} {
			return map[string]interface{}{"universe": tripleStrings(univ), "history": histString(ops[:upto])}
		}
		removedFrom := map[string]bool{}
		calls := 0
		for i, op := range ops {
			upto = i + 1
			applyOp(ctx, r, st, m, univ, op, hist)
			if op.Kind == "remove" {
				for _, t := range batchTriples(univ, op.Batch) {
					removedFrom[op.Graph+"|"+cv.Node(t.Subject())] = true
					removedFrom[op.Graph+"|id:"+string(t.Predicate().ID())] = true
					removedFrom[op.Graph+"|"+cv.Obj(t.Object())] = true
				}
			}
			if op.Kind != "add" && op.Kind != "remove" && op.Kind != "new" {
				continue
			}
			mg, ok := m[op.Graph]
			if !ok {
				continue
			}
			g, err := st.Graph(ctx, op.Graph)
			if err != nil {
				continue
			}
			state := mg.Triples()
			// model-free cross-check: the listing the store gives right now
			listed, _ := listGraph(ctx, g)
			for qi, q := range qs {
				if third > 1 && (qi+i)%third != 0 {
					continue
				}
				r.Note(fmt.Sprintf("step %d %s on %s", i, q, op.Graph))
				got, err, closed := ref.Call(ctx, g, q, storage.DefaultLookup)
				calls++
				if err != nil {
					r.Violation("lookup-error/"+q.Method, fmt.Sprintf("%s returned an error with default options: %v", q, err), hist())
					continue
				}
				if !closed {
					r.Violation("lookup-channel-open/"+q.Method, q.String()+" returned without closing its channel", hist())
				}
				sort.Strings(got)
				want, _ := ref.Lookup(state, q, storage.DefaultLookup)
				a, b := cv.MultisetDiff(want, got)
				if len(a) > 0 || len(b) > 0 {
					mode := "missing"
					if len(a) == 0 {
						mode = "extra"
					}
					w := hist().(map[string]interface{})
					w["query"] = q.String()
					w["graph"] = op.Graph
					w["missing"] = showAll(a, 4)
					w["extra"] = showAll(b, 4)
					r.Violation("lookup-"+mode+"/"+queryClass(q, state), fmt.Sprintf("%s: %d results missing, %d not derived from a stored matching triple", q, len(a), len(b)), w)
				}
				// cross-check against a filter over Graph.Triples of this moment
				want2, _ := ref.Lookup(listed, q, storage.DefaultLookup)
				if strings.Join(want2, "\x00") != strings.Join(got, "\x00") && len(a) == 0 && len(b) == 0 {
					r.Violation("lookup-vs-scan/"+q.Method, q.String()+" differs from the same filter applied to Graph.Triples", hist())
				}
				// non-trivial: the graph holds a triple sharing the queried id with
				// another kind or anchor, and an earlier removal hit a queried bucket
				if q.P != nil && len(got) > 0 {
					near := false
					for _, t := range state {
						if t.Predicate().ID() == q.P.ID() && cv.Pred(t.Predicate()) != cv.Pred(q.P) {
							near = true
						}
					}
					if near && removedFrom[op.Graph+"|id:"+string(q.P.ID())] {
						r.Nontrivial(fmt.Sprintf("%v|%s", mg.Canon(), q))
					}
				}
			}
		}
		r.Eval(calls)
		r.Count("lookup_calls", calls)
		if h == 0 {
			r.Sample(map[string]interface{}{"universe": tripleStrings(univ)[:3], "queries_per_step": len(qs), "example_query": qs[len(qs)/3].String()})
		}
	}
}

func init() {
	register(&rt.Check{
		ID:    "C02",
		Level: "exploration",
		Rule: "random add/remove histories (overlapping, duplicated, respelled batches; drop and re-create) over a 12-triple universe whose triples share subjects, predicate ids (immutable and temporal) and objects; after every step all ten lookups and Triples are called for every choice of fixed components from stored and never-stored values (query predicates of both kinds, every anchor, T2 in another zone) and compared, as multisets of canonical values, with the model filtered by the property's definition, and with the same filter over Graph.Triples; " +
			"non-trivial = non-empty result of a predicate lookup while the graph holds a triple with the same id but another kind/anchor and an earlier removal hit that id's bucket; distinct by (state, method, args)",
		Assume: []string{"a predicate argument matches id + kind + instant (zone ignored)", "canonical values from accessors"},
		Floor:  300,
		Phases: func(tier string, seed int64) []rt.Phase {
			n, steps, third := 304, 40, 3
			if tier == "thorough" {
				n, steps, third = 3008, 60, 1
			}
			return []rt.Phase{
				{Name: "histories", N: 16, Run: func(i int, r *rt.Rec) { c02Histories(r, gen.Rng(seed, "c02h", i), n/16, steps, third) }},
			}
		},
	})
}
