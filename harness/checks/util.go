package checks

import (
	"fmt"
	"runtime"
	"sort"
	"strings"

	"bwverif/rt"
)

// guard runs f and converts a panic in the calling goroutine into a violation
// keyed by where it happened and the panic class.
func guard(r *rt.Rec, where, input string, f func()) (panicked bool) {
	defer func() {
		if e := recover(); e != nil {
			buf := make([]byte, 1<<14)
			n := runtime.Stack(buf, false)
			st := string(buf[:n])
			panicked = true
			r.Violation("panic/"+where+"/"+rt.PanicClass(fmt.Sprint(e), st), fmt.Sprintf("%s panicked: %v", where, e),
				map[string]interface{}{"input": input, "stack": trim(st, 2500)})
		}
	}()
	f()
	return false
}

func trim(s string, n int) string {
	if len(s) > n {
		return s[:n] + "..."
	}
	return s
}

// features lists the delimiter-like features of a string (used to build
// narrow, syntactic classes for violation keys).
func features(s string) string {
	var fs []string
	add := func(c bool, name string) {
		if c {
			fs = append(fs, name)
		}
	}
	add(strings.Contains(s, `"@[`), "q@[")
	add(strings.Contains(s, `"^^type:`), "q^^type:")
	add(strings.Contains(s, `\`), "bs")
	add(strings.Contains(s, `"`) && !strings.Contains(s, `"@[`) && !strings.Contains(s, `"^^type:`), "q")
	add(strings.ContainsAny(s, "\n\r"), "nl")
	add(strings.Contains(s, "\t"), "tab")
	add(strings.Contains(s, "]"), "]")
	add(strings.ContainsAny(s, "<>"), "<>")
	hasCtl := false
	nonASCII := false
	for _, c := range s {
		if c < 0x20 && c != '\n' && c != '\r' && c != '\t' || c == 0x7f {
			hasCtl = true
		}
		if c > 0x7f {
			nonASCII = true
		}
	}
	add(hasCtl, "ctl")
	add(nonASCII, "utf8")
	if len(fs) == 0 {
		return "plain"
	}
	sort.Strings(fs)
	return strings.Join(fs, "+")
}

func min(a, b int) int {
	if a < b {
		return a
	}
	return b
}

func sortStrings(xs []string) { sort.Strings(xs) }
