package checks

import (
	"context"
	"fmt"
	"math/rand"
	"runtime"
	"strings"
	"sync"

	"bwverif/bq"
	"bwverif/cv"
	"bwverif/gen"
	"bwverif/rt"

	"github.com/google/badwolf/bql/table"
	"github.com/google/badwolf/storage"
	"github.com/google/badwolf/triple"
	"github.com/google/badwolf/triple/literal"
)

func renameQuery(q *bq.Query, sfx string) *bq.Query {
	nq := *q
	ren := func(b string) string {
		if b == "" {
			return ""
		}
		return b + sfx
	}
	nq.Clauses = nil
	seen := map[string]bool{}
	for _, c := range q.Clauses {
		for _, b := range uniq(c.Bindings()) {
			seen[b] = true
		}
	}
	for _, c := range q.Clauses {
		nc := c
		for b := range seen {
			nc = gen.RenameBinding(nc, b, "\x00"+b)
		}
		for b := range seen {
			nc = gen.RenameBinding(nc, "\x00"+b, ren(b))
		}
		nq.Clauses = append(nq.Clauses, nc)
	}
	nq.Vars = nil
	for _, v := range q.Vars {
		v.Binding = ren(v.Binding)
		v.Alias = ren(v.Alias)
		nq.Vars = append(nq.Vars, v)
	}
	nq.GroupBy = nil
	for _, g := range q.GroupBy {
		nq.GroupBy = append(nq.GroupBy, ren(g))
	}
	nq.OrderBy = nil
	for _, o := range q.OrderBy {
		o.Binding = ren(o.Binding)
		nq.OrderBy = append(nq.OrderBy, o)
	}
	return &nq
}

func permutations(n int) [][]int {
	var res [][]int
	var rec func(cur []int, used []bool)
	rec = func(cur []int, used []bool) {
		if len(cur) == n {
			res = append(res, append([]int{}, cur...))
			return
		}
		for i := 0; i < n; i++ {
			if !used[i] {
				used[i] = true
				rec(append(cur, i), used)
				used[i] = false
			}
		}
	}
	rec(nil, make([]bool, n))
	return res
}

// countingStore counts driver calls per method (to tell plans apart).
type countingGraph struct {
	storage.Graph
	calls *[]string
}

func execQ(ctx context.Context, r *rt.Rec, st storage.Store, text string, chanSize int) (*table.Table, error, bool) {
	var tbl *table.Table
	var err error
	r.Begin(text)
	if guard(r, "execute", text, func() { tbl, _, err = bq.Run(ctx, st, text, chanSize, 10) }) {
		return nil, nil, true
	}
	return tbl, err, false
}

func c14Run(r *rt.Rec, rng *rand.Rand, n int) {
	ctx := context.Background()
	shapes := gen.FriendlyShapes()
	for i := 0; i < n; i++ {
		one := gen.DenseDataSet(rng, 1, 12+rng.Intn(14), rng.Intn(2) == 0)
		if rng.Intn(3) == 0 {
			one = gen.DataSet(rng, 1, 10+rng.Intn(14), false)
		}
		all := one["?g1"]
		var cs []bq.Clause
		switch rng.Intn(3) {
		case 0:
			cs = gen.RandomPattern(rng, shapes, all, 2+rng.Intn(3))
		default:
			cs = gen.MatchingPattern(rng, all, 1+rng.Intn(2))
			if rng.Intn(2) == 0 {
				extra := gen.RandomPattern(rng, shapes, all, 1)[0]
				extra, _ = gen.Share(rng, cs, gen.RenameBinding(extra, "?s1", "?s9"), 1)
				cs = append(cs, extra)
			}
		}
		// a clause whose bound takes its limits from time bindings of earlier
		// clauses: its meaning depends on what precedes it, so such patterns are
		// never permuted (all other variants apply)
		boundAlias := false
		if rng.Intn(5) == 0 {
			cs, boundAlias = gen.AddBoundAlias(rng, cs)
		}
		optional := false
		if !boundAlias && rng.Intn(4) == 0 && len(cs) > 1 {
			c := cs[len(cs)-1]
			// extraction bindings of an optional clause must be fresh: only use
			// it when it shares position bindings only
			cs[len(cs)-1].Optional = true
			_ = c
			optional = true
		}
		base := gen.SelectAll(cs, []string{"?g1"})
		if len(base.Vars) == 0 {
			continue
		}
		aggregate := false
		if rng.Intn(5) == 0 && len(base.Vars) >= 2 {
			k := base.Vars[0]
			base.Vars = []bq.Proj{k, {Binding: base.Vars[1].Binding, Alias: "?cnt", Op: "count"}}
			base.GroupBy = []string{k.Out()}
			aggregate = true
		}
		lo, hi := base.Bounds()
		if _, ok := bq.SolveMax(cs, base.Graphs, one, lo, hi, 800); !ok {
			continue
		}
		outs := base.OutBindings()
		st := bq.NewStore(ctx, one)
		t0, err0, pan := execQ(ctx, r, st, base.Text(), 0)
		if pan {
			continue
		}
		r.Eval(1)
		rows0 := []string{}
		if err0 == nil && t0 != nil {
			rows0 = bq.TableRows(t0, outs)
		}
		w := func(variant, stmt string) map[string]interface{} {
			return map[string]interface{}{"base_statement": base.Text(), "variant": variant, "variant_statement": stmt, "data": bq.DataStrings(one)}
		}
		same := func(variant, stmt string, t *table.Table, err error, vouts []string) bool {
			if (err == nil) != (err0 == nil) {
				ww := w(variant, stmt)
				ww["base_error"], ww["variant_error"] = fmt.Sprint(err0), fmt.Sprint(err)
				r.Violation("variant-error/"+variant, fmt.Sprintf("the %s variant and the base query disagree on failing: base err=%v, variant err=%v", variant, err0, err), ww)
				return false
			}
			if err != nil {
				return true
			}
			rows := bq.TableRows(t, vouts)
			a, b := cv.MultisetDiff(rows0, rows)
			if len(a) > 0 || len(b) > 0 {
				ww := w(variant, stmt)
				ww["only_base"], ww["only_variant"] = showAll(a, 4), showAll(b, 4)
				r.Violation("variant-differs/"+variant, fmt.Sprintf("the %s variant returns a different multiset of rows: %d only in base, %d only in variant", variant, len(a), len(b)), ww)
				return false
			}
			return true
		}
		nvar := 0
		// --- repeated execution, channel sizes, processors
		for _, cfgv := range []struct {
			name     string
			chanSize int
			procs    int
		}{{"repeat", 0, 0}, {"chan1", 1, 0}, {"chan7", 7, 0}, {"chan64", 64, 0}, {"procs1", 0, 1}, {"procs2", 3, 2}, {"procs16", 0, 16}} {
			old := 0
			if cfgv.procs > 0 {
				old = runtime.GOMAXPROCS(cfgv.procs)
			}
			t, err, pan := execQ(ctx, r, st, base.Text(), cfgv.chanSize)
			if cfgv.procs > 0 {
				runtime.GOMAXPROCS(old)
			}
			if !pan {
				r.Eval(1)
				nvar++
				v := cfgv.name
				if strings.HasPrefix(v, "chan") {
					v = "chanSize"
				} else if strings.HasPrefix(v, "procs") {
					v = "GOMAXPROCS"
				}
				same(v, base.Text(), t, err, outs)
			}
		}
		// --- consistent renaming of bindings
		rq := renameQuery(base, "_z")
		if t, err, pan := execQ(ctx, r, st, rq.Text(), 0); !pan {
			r.Eval(1)
			nvar++
			same("rename-bindings", rq.Text(), t, err, rq.OutBindings())
		}
		// --- the data partitioned over 2-3 graphs listed in FROM
		parts := 2 + rng.Intn(2)
		pd := bq.Data{}
		for k := 0; k < parts; k++ {
			pd[gen.GraphVars[k]] = nil
		}
		for _, t := range all {
			g := gen.GraphVars[rng.Intn(parts)]
			pd[g] = append(pd[g], t)
		}
		pq := *base
		pq.Graphs = gen.GraphVars[:parts]
		pst := bq.NewStore(ctx, pd)
		if t, err, pan := execQ(ctx, r, pst, pq.Text(), 0); !pan {
			r.Eval(1)
			nvar++
			same(fmt.Sprintf("partition-%d-graphs", parts), pq.Text(), t, err, outs)
		}
		// --- clause permutations (no OPTIONAL)
		var permuted []*bq.Query
		if !optional && !boundAlias && len(cs) >= 2 && len(cs) <= 4 {
			for _, perm := range permutations(len(cs))[1:] {
				pcs := make([]bq.Clause, len(cs))
				for k, j := range perm {
					pcs[k] = cs[j]
				}
				vq := *base
				vq.Clauses = pcs
				vqc := vq
				permuted = append(permuted, &vqc)
				if t, err, pan := execQ(ctx, r, st, vq.Text(), 0); !pan {
					r.Eval(1)
					nvar++
					if !same("clause-order", vq.Text(), t, err, outs) {
						break
					}
				}
			}
		}
		// --- monotonicity: a superset of the data never removes rows
		if !optional && !aggregate && err0 == nil {
			sup := bq.Data{"?g1": append([]*triple.Triple{}, all...)}
			seen := map[string]bool{}
			for _, t := range all {
				seen[cv.Triple(t)] = true
			}
			for k := 0; k < 1+rng.Intn(6); k++ {
				t := gen.VTriple(rng, true)
				if !seen[cv.Triple(t)] {
					seen[cv.Triple(t)] = true
					sup["?g1"] = append(sup["?g1"], t)
				}
			}
			sst := bq.NewStore(ctx, sup)
			if t, err, pan := execQ(ctx, r, sst, base.Text(), 0); !pan {
				r.Eval(1)
				nvar++
				if err != nil {
					ww := w("superset", base.Text())
					ww["error"] = err.Error()
					r.Violation("variant-error/superset", "adding triples made the query fail: "+err.Error(), ww)
				} else if lost, _ := cv.MultisetDiff(rows0, bq.TableRows(t, outs)); len(lost) > 0 {
					ww := w("superset", base.Text())
					ww["lost_rows"] = showAll(lost, 4)
					ww["superset_data"] = bq.DataStrings(sup)
					r.Violation("superset-removes-rows", fmt.Sprintf("adding triples to the graph removed %d rows from the result", len(lost)), ww)
				}
			}
		}
		// --- a total ORDER BY returns the same sequence every time
		allSingle := true
		if err0 == nil && t0 != nil {
			for _, ks := range columnKinds(t0, outs) {
				if len(ks) != 1 {
					// a column that mixes kinds of values is not totally ordered
					allSingle = false
				}
			}
		}
		if err0 == nil && t0 != nil && t0.NumRows() >= 2 && !aggregate && allSingle {
			oq := *base
			for _, b := range outs {
				oq.OrderBy = append(oq.OrderBy, bq.Order{Binding: b, Dir: []string{"", "DESC"}[rng.Intn(2)]})
			}
			var first []string
			spelling, ambiguous := map[string]string{}, false
			type run struct {
				name  string
				st    storage.Store
				q     *bq.Query
				procs int
			}
			var runs []run
			for k := 0; k < 20; k++ {
				runs = append(runs, run{"repeat", st, &oq, 0})
			}
			// the same total order through every other plan: clause orders, the
			// partitioned data, other processor counts
			for _, pqr := range permuted {
				vq := *pqr
				vq.OrderBy = oq.OrderBy
				runs = append(runs, run{"clause-order", st, &vq, 0})
			}
			ppq := pq
			ppq.OrderBy = oq.OrderBy
			runs = append(runs, run{"partition", pst, &ppq, 0}, run{"GOMAXPROCS", st, &oq, 1}, run{"GOMAXPROCS", st, &oq, 16}, run{"GOMAXPROCS", pst, &ppq, 16})
			for k, rn := range runs {
				old := 0
				if rn.procs > 0 {
					old = runtime.GOMAXPROCS(rn.procs)
				}
				t, err, pan := execQ(ctx, r, rn.st, rn.q.Text(), []int{0, 1, 64}[k%3])
				if rn.procs > 0 {
					runtime.GOMAXPROCS(old)
				}
				if pan || err != nil || t == nil {
					break
				}
				var seq []string
				for _, row := range t.Rows() {
					seq = append(seq, cv.Row(row, outs))
					// one value under two printed forms (the same instant in two
					// zones) makes "ordered by printed form" depend on which spelling
					// a plan happens to show: no sequence is required then
					for _, b := range outs {
						if c := row[b]; c != nil {
							k := b + "\x00" + cv.Cell(c)
							if p, ok := spelling[k]; ok && p != c.String() {
								ambiguous = true
							}
							spelling[k] = c.String()
						}
					}
				}
				if ambiguous {
					r.Count("total_order_skipped_ambiguous_spelling", 1)
					break
				}
				if k == 0 {
					first = seq
					continue
				}
				if strings.Join(seq, "\x1c") != strings.Join(first, "\x1c") {
					ww := w("order-by-all/"+rn.name, rn.q.Text())
					ww["first_sequence"], ww["this_sequence"] = showAll(first, 8), showAll(seq, 8)
					r.Violation("total-order-unstable/"+rn.name, "a query whose ORDER BY lists every output binding returned two different row sequences", ww)
					break
				}
			}
			r.Eval(len(runs))
		}
		if len(rows0) >= 2 {
			r.Nontrivial(base.Text())
		}
		r.Count("variants_compared", nvar)
		if i == 0 {
			r.Sample(map[string]interface{}{"base_statement": base.Text(), "rows": len(rows0), "variants": nvar})
		}
	}
}

// c14Concurrent: statements of many kinds (HAVING with different constants of
// one kind, ORDER BY, GROUP BY, OPTIONAL, bounds, generated base queries) are
// first executed one after the other on one store, then all at once from one
// goroutine each, several times over: every concurrent result must be the
// sequential one (multiset of canonical rows; identical sequence for the
// ORDER BY statements whose keys determine the order). Nothing writes.
func c14Concurrent(r *rt.Rec, rng *rand.Rand, n, reps int) {
	ctx := context.Background()
	shapes := gen.FriendlyShapes()
	for i := 0; i < n; i++ {
		data := gen.DenseDataSet(rng, 1, 14+rng.Intn(12), true)
		all := data["?g1"]
		st := bq.NewStore(ctx, data)
		type stm struct {
			text    string
			outs    []string
			ordered bool
			rows    []string
			err     bool
		}
		var stms []*stm
		add := func(text string, outs []string, ordered bool) {
			stms = append(stms, &stm{text: text, outs: outs, ordered: ordered})
		}
		ints := []string{"-7", "0", "5", "12", "9007199254740992", "-9223372036854775808"}
		for k := 0; k < 3; k++ {
			c := ints[rng.Intn(len(ints))]
			op := []string{"<", ">", "="}[rng.Intn(3)]
			add(fmt.Sprintf(`SELECT ?s, ?v FROM ?g1 WHERE { ?s "n"@[] ?v } HAVING ?v %s "%s"^^type:int64;`, op, c), []string{"?s", "?v"}, false)
		}
		add(fmt.Sprintf(`SELECT ?s, ?v FROM ?g1 WHERE { ?s "f"@[] ?v } HAVING ?v %s "%s"^^type:float64;`, []string{"<", ">"}[rng.Intn(2)], []string{"0.25", "1.0000001", "-2.5"}[rng.Intn(3)]), []string{"?s", "?v"}, false)
		add(fmt.Sprintf(`SELECT ?s, ?t FROM ?g1 WHERE { ?s "p"@[?t] ?o } HAVING ?t %s %s;`, []string{"<", ">", "="}[rng.Intn(3)], []string{"2015-01-01T00:00:00Z", "2016-06-15T12:30:00Z", "2016-06-15T13:30:00+01:00"}[rng.Intn(3)]), []string{"?s", "?t"}, false)
		add(fmt.Sprintf(`SELECT ?s, ?o FROM ?g1 WHERE { ?s ?p ?o } HAVING ?o = %s;`, []string{"/u<a>", "/u<b>", `"abc"^^type:text`, `"5"^^type:int64`}[rng.Intn(4)]), []string{"?s", "?o"}, false)
		add(fmt.Sprintf(`SELECT ?s, ?o FROM ?g1 WHERE { ?s ?p ?o } HAVING (?s = %s) OR ?o = %s;`, []string{"/u<a>", "/u<c>"}[rng.Intn(2)], []string{"/u<b>", `"abc"^^type:text`}[rng.Intn(2)]), []string{"?s", "?o"}, false)
		add(`SELECT ?s, ?v FROM ?g1 WHERE { ?s "n"@[] ?v } ORDER BY ?v, ?s;`, []string{"?s", "?v"}, true)
		add(`SELECT ?s, ?v FROM ?g1 WHERE { ?s "n"@[] ?v } ORDER BY ?v DESC, ?s DESC;`, []string{"?s", "?v"}, true)
		add(`SELECT ?s, ?v, ?w FROM ?g1 WHERE { ?s "n"@[] ?w . ?s "n"@[] ?v } ORDER BY ?v, ?w DESC, ?s;`, []string{"?s", "?v", "?w"}, true)
		add(`SELECT ?s, ?v, ?s2 FROM ?g1 WHERE { ?s "n"@[] ?v . ?s2 "n"@[] ?v } ORDER BY ?v DESC, ?s, ?s2;`, []string{"?s", "?v", "?s2"}, true)
		add(`SELECT ?s, ?t FROM ?g1 WHERE { ?s "p"@[?t] ?o } ORDER BY ?t DESC, ?s;`, []string{"?s", "?t"}, false)
		add(`SELECT ?s, count(?o) AS ?n, count(distinct ?p) AS ?m FROM ?g1 WHERE { ?s ?p ?o } GROUP BY ?s;`, []string{"?s", "?n", "?m"}, false)
		add(`SELECT ?s, sum(?v) AS ?t FROM ?g1 WHERE { ?s "n"@[] ?v } GROUP BY ?s ORDER BY ?s;`, []string{"?s", "?t"}, true)
		add(`SELECT ?s, ?o, ?x FROM ?g1 WHERE { ?s "p"@[] ?o . OPTIONAL { ?o "q"@[] ?x } };`, []string{"?s", "?o", "?x"}, false)
		add(`SELECT ?s, ?t, ?o2 FROM ?g1 WHERE { ?s "p"@[?t] ?o . ?s "q"@[?t,] ?o2 };`, []string{"?s", "?t", "?o2"}, false)
		add(fmt.Sprintf(`SELECT ?s, ?p, ?o FROM ?g1 WHERE { ?s ?p ?o } BEFORE %s;`, []string{"2015-06-01T00:00:00Z", "2017-01-01T00:00:00Z"}[rng.Intn(2)]), []string{"?s", "?p", "?o"}, false)
		for k := 0; k < 3; k++ {
			cs := gen.RandomPattern(rng, shapes, all, 2+rng.Intn(2))
			q := gen.SelectAll(cs, []string{"?g1"})
			if len(q.Vars) == 0 {
				continue
			}
			lo, hi := q.Bounds()
			if _, ok := bq.SolveMax(cs, q.Graphs, data, lo, hi, 500); !ok {
				continue
			}
			add(q.Text(), q.OutBindings(), false)
		}
		seqOf := func(t *table.Table, outs []string, ordered bool) []string {
			if t == nil {
				return nil
			}
			if ordered {
				var seq []string
				for _, row := range t.Rows() {
					seq = append(seq, cv.Row(row, outs))
				}
				return seq
			}
			rows := bq.TableRows(t, outs)
			sortStrings(rows)
			return rows
		}
		// sequential reference run
		for _, s := range stms {
			t, err, pan := execQ(ctx, r, st, s.text, 0)
			if pan {
				return
			}
			s.err = err != nil
			s.rows = seqOf(t, s.outs, s.ordered)
		}
		r.Begin(fmt.Sprintf("concurrent execution of %d statements x %d, e.g. %s", len(stms), reps, stms[0].text))
		var wg sync.WaitGroup
		var mu sync.Mutex
		type bad struct {
			s    *stm
			got  []string
			err  error
			what string
		}
		var bads []bad
		start := make(chan struct{})
		for _, s := range stms {
			wg.Add(1)
			go func(s *stm) {
				defer wg.Done()
				<-start
				for k := 0; k < reps; k++ {
					t, _, err := bq.Run(ctx, st, s.text, []int{0, 1, 16}[k%3], 10)
					got := []string(nil)
					if err == nil {
						got = seqOf(t, s.outs, s.ordered)
					}
					if (err != nil) != s.err || (err == nil && strings.Join(got, "\x1c") != strings.Join(s.rows, "\x1c")) {
						mu.Lock()
						bads = append(bads, bad{s, got, err, ""})
						mu.Unlock()
						return
					}
				}
			}(s)
		}
		close(start)
		wg.Wait()
		r.Eval(len(stms) * reps)
		r.Count("concurrent_statement_executions", len(stms)*reps)
		for _, b := range bads {
			cls := strings.ToLower(firstWordAfter(b.s.text))
			r.Violation("concurrent-result-differs/"+cls, fmt.Sprintf("a statement executed while %d other read-only statements were running returned another result than when executed alone (%d rows instead of %d, err=%v)", len(stms)-1, len(b.got), len(b.s.rows), b.err),
				map[string]interface{}{"statement": b.s.text, "alone": showAll(b.s.rows, 8), "concurrently": showAll(b.got, 8), "others": stms[0].text, "data": bq.DataStrings(data)})
		}
		if len(stms) >= 10 {
			r.Nontrivial(fmt.Sprintf("concurrent|%d|%s", len(stms), stms[0].text+stms[3].text))
		}
	}
}

// firstWordAfter names the feature of a statement for violation keys.
func firstWordAfter(text string) string {
	for _, kw := range []string{"HAVING", "ORDER BY", "GROUP BY", "OPTIONAL", "BEFORE", "@[?t,]"} {
		if strings.Contains(text, kw) {
			return strings.ReplaceAll(kw, " ", "-")
		}
	}
	return "plain"
}

// c14Large: patterns over thousands of rows, where the planner specialises the
// next clause once per row in concurrent workers: the multiset of rows must be
// the one obtained on a single processor, its size the one the data was built
// to give, for joins, OPTIONAL (half of the rows without a match), three
// clauses and a grouped count.
func c14Large(r *rt.Rec, rng *rand.Rand, nSubjects, reps int) {
	ctx := context.Background()
	var ts []*triple.Triple
	p, q, nn := gen.MustImm("p"), gen.MustImm("q"), gen.MustImm("n")
	// fan-out: every third subject has two "p" facts, every fourth three "q"
	// facts (even subjects have one, odd ones none)
	joinRows, optRows, o3Rows := 0, 0, 0
	for i := 0; i < nSubjects; i++ {
		s := gen.MustNode("/u", fmt.Sprintf("s%d", i))
		np, nq := 1, 0
		ts = append(ts, gen.MustTriple(s, p, triple.NewNodeObject(gen.MustNode("/u", fmt.Sprintf("o%d", i%7)))))
		if i%3 == 0 {
			np = 2
			ts = append(ts, gen.MustTriple(s, p, triple.NewNodeObject(gen.MustNode("/u", "extra"))))
		}
		if i%2 == 0 {
			nq = 1
			ts = append(ts, gen.MustTriple(s, q, triple.NewNodeObject(gen.MustNode("/u", fmt.Sprintf("x%d", i)))))
		}
		if i%4 == 0 {
			nq = 3
			ts = append(ts, gen.MustTriple(s, q, triple.NewNodeObject(gen.MustNode("/u", fmt.Sprintf("y%d", i)))), gen.MustTriple(s, q, triple.NewNodeObject(gen.MustNode("/u", fmt.Sprintf("z%d", i)))))
		}
		ts = append(ts, gen.MustTriple(s, nn, triple.NewLiteralObject(gen.MustLit(literal.Int64, int64(i%5)))))
		joinRows += np * nq
		if nq == 0 {
			optRows += np
		} else {
			optRows += np * nq
		}
		if i%7 == 3 {
			if nq == 0 {
				o3Rows++
			} else {
				o3Rows += nq
			}
		}
	}
	rng.Shuffle(len(ts), func(a, b int) { ts[a], ts[b] = ts[b], ts[a] })
	data := bq.Data{"?g1": ts}
	st := bq.NewStore(ctx, data)
	type lq struct {
		text string
		outs []string
		rows int
	}
	qs := []lq{
		{`SELECT ?s, ?o, ?x FROM ?g1 WHERE { ?s "p"@[] ?o . ?s "q"@[] ?x };`, []string{"?s", "?o", "?x"}, joinRows},
		{`SELECT ?s, ?o, ?x FROM ?g1 WHERE { ?s "p"@[] ?o . OPTIONAL { ?s "q"@[] ?x } };`, []string{"?s", "?o", "?x"}, optRows},
		{`SELECT ?s, ?o, ?x, ?v FROM ?g1 WHERE { ?s "q"@[] ?x . ?s "p"@[] ?o . ?s "n"@[] ?v };`, []string{"?s", "?o", "?x", "?v"}, joinRows},
		{`SELECT ?s, ?x, ?v FROM ?g1 WHERE { ?s "n"@[] ?v . OPTIONAL { ?s "q"@[] ?x } . ?s "p"@[] /u<o3> };`, []string{"?s", "?x", "?v"}, o3Rows},
		{`SELECT ?o, count(?s) AS ?c FROM ?g1 WHERE { ?s "p"@[] ?o . ?s "n"@[] ?v } GROUP BY ?o;`, []string{"?o", "?c"}, 8},
	}
	for _, lq := range qs {
		old := runtime.GOMAXPROCS(1)
		t0, err0, pan := execQ(ctx, r, st, lq.text, 0)
		runtime.GOMAXPROCS(old)
		if pan {
			continue
		}
		r.Eval(1)
		w := func() map[string]interface{} {
			return map[string]interface{}{"statement": lq.text, "subjects": nSubjects, "data": "s_i p o_(i%7); s_i q x_i for even i; s_i n (i%5)"}
		}
		if err0 != nil || t0 == nil {
			r.Violation("large/unexpected-error", fmt.Sprintf("the query failed on one processor: %v", err0), w())
			continue
		}
		base := bq.TableRows(t0, lq.outs)
		if len(base) != lq.rows {
			ww := w()
			ww["rows"], ww["expected"] = len(base), lq.rows
			r.Violation("large/row-count/one-processor", fmt.Sprintf("the query returns %d rows on one processor, the data was built to give %d", len(base), lq.rows), ww)
		}
		for k := 0; k < reps; k++ {
			old := runtime.GOMAXPROCS(16)
			t, err, pan := execQ(ctx, r, st, lq.text, []int{0, 1, 64}[k%3])
			runtime.GOMAXPROCS(old)
			if pan {
				break
			}
			r.Eval(1)
			if err != nil || t == nil {
				r.Violation("large/unexpected-error", fmt.Sprintf("the query failed on 16 processors: %v", err), w())
				break
			}
			rows := bq.TableRows(t, lq.outs)
			if a, b := cv.MultisetDiff(base, rows); len(a) > 0 || len(b) > 0 {
				ww := w()
				ww["lost"], ww["new"], ww["rows"], ww["expected"] = showAll(a, 4), showAll(b, 4), len(rows), lq.rows
				r.Violation("large/rows-differ-between-executions", fmt.Sprintf("execution %d on 16 processors returns %d rows, %d of the %d rows of the single-processor execution are missing and %d are new", k, len(rows), len(a), len(base), len(b)), ww)
				break
			}
		}
		r.Nontrivial(fmt.Sprintf("large|%d|%s", nSubjects, lq.text))
	}
	r.Count("large_pattern_rows", nSubjects)
}

func init() {
	register(&rt.Check{
		ID:    "C14",
		Level: "exploration",
		Rule: "base SELECT queries without LIMIT or FILTER from the C03/C10/C11 generators (2-4 clause patterns with shared bindings, extractions, an OPTIONAL clause, GROUP BY with count) over sparse and dense data; variants: 1 repeated execution, chanSize 1/7/64, GOMAXPROCS 1/2/16, consistent renaming of every binding, the data partitioned at random over 2-3 graphs listed in FROM, every permutation of <=4 non-OPTIONAL clauses, a random superset of the data (monotonicity; no OPTIONAL/aggregate), and the query with ORDER BY over all output bindings executed 20 times and through every other plan (clause orders, partitioned data, GOMAXPROCS 1/16); patterns with a bound whose limits are time bindings of earlier clauses (never permuted); ~17 read-only statements (HAVING with different constants of one kind, ORDER BY, GROUP BY, OPTIONAL, bounds, generated patterns) executed alone and then all at once, 12 times each, on one store; joins, OPTIONAL, three-clause and grouped patterns over thousands of rows (one concurrent worker per row) executed on one and on 16 processors; the parallel variants also under -race; " +
			"oracle: purely metamorphic - equal multisets of canonical rows (base subset of superset; identical sequence for the total order); non-trivial = base result has >=2 rows; distinct by statement text + data",
		Assume: []string{"two cells are the same value when their accessor-based canonical forms agree (zone ignored)", "a total order is obtained by listing every output binding in ORDER BY; ties between rows that are equal as values but printed differently are compared canonically"},
		Floor:  100,
		Phases: func(tier string, seed int64) []rt.Phase {
			n, rc, cn, lg := 960, 64, 64, 1500
			if tier == "thorough" {
				n, rc, cn, lg = 9600, 640, 640, 6000
			}
			return []rt.Phase{
				{Name: "variants", N: 32, Run: func(i int, r *rt.Rec) { c14Run(r, gen.Rng(seed, "c14", i), n/32) }},
				{Name: "concurrent", N: 16, Run: func(i int, r *rt.Rec) { c14Concurrent(r, gen.Rng(seed, "c14c", i), cn/16, 12) }},
				{Name: "concurrent-race", N: 16, Race: true, Run: func(i int, r *rt.Rec) { c14Concurrent(r, gen.Rng(seed, "c14cr", i), cn/32, 4) }},
				{Name: "large", N: 4, Procs: 16, Run: func(i int, r *rt.Rec) { c14Large(r, gen.Rng(seed, "c14l", i), lg+i*37, 6) }},
				{Name: "variants-race", N: 16, Race: true, Run: func(i int, r *rt.Rec) { c14Run(r, gen.Rng(seed, "c14r", i), rc/16) }},
			}
		},
	})
}
