package checks

import (
	"context"
	"fmt"
	"math/rand"
	"regexp"
	"sort"
	"strings"

	"bwverif/bq"
	"bwverif/cv"
	"bwverif/gen"
	"bwverif/rt"

	"github.com/google/badwolf/storage"
	"github.com/google/badwolf/storage/memoization"
	"github.com/google/badwolf/triple"
)

var digitsRe = regexp.MustCompile(`[0-9]+`)
var quotedRe = regexp.MustCompile(`"[^"]*"|/[a-z/_]+<[^>]*>|\?[A-Za-z0-9_]+|\[[^\]]*\]|\{[^}]*\}|map\[.*`)

// errClass reduces an error message to a class.
func errClass(err error) string {
	if err == nil {
		return "nil"
	}
	m := err.Error()
	m = quotedRe.ReplaceAllString(m, "_")
	m = digitsRe.ReplaceAllString(m, "N")
	m = strings.Join(strings.Fields(m), "-")
	if len(m) > 70 {
		m = m[:70]
	}
	return m
}

// compareSelect runs the query for real and against the reference; class is
// the syntactic class of the case used in violation keys. It returns the
// number of reference rows (or -1 when the comparison could not be made).
func compareSelect(ctx context.Context, r *rt.Rec, q *bq.Query, data bq.Data, class string, chanSize int, also ...storage.Store) int {
	text := q.Text()
	r.Begin(text)
	lo, hi := q.Bounds()
	envs, ok := bq.SolveMax(q.Clauses, q.Graphs, data, lo, hi, 1500)
	if !ok {
		// cross products of unrelated clauses: too big to be a useful case
		r.Count("skipped_too_many_solutions", 1)
		return -1
	}
	r.Eval(1)
	st := bq.NewStore(ctx, data)
	tbl, stage, err := bq.Run(ctx, st, text, chanSize, 10)
	w := func() map[string]interface{} {
		return map[string]interface{}{"statement": text, "data": bq.DataStrings(data)}
	}
	want := bq.ProjectRows(envs, q.Vars)
	if err != nil {
		ww := w()
		ww["error"] = err.Error()
		ww["reference_rows"] = showAll(want, 5)
		r.Violation(fmt.Sprintf("unexpected-error/%s/%s", class, errClass(err)), fmt.Sprintf("a SELECT of the conjunctive fragment failed at stage %d: %v", stage, err), ww)
		return -1
	}
	if tbl == nil {
		r.Violation("nil-table/"+class, "Execute returned (nil, nil)", w())
		return -1
	}
	got := bq.TableRows(tbl, q.OutBindings())
	if bq.DuplicatedAcrossGraphs(q.Graphs, data) {
		got, want = cv.Dedup(got), cv.Dedup(want)
	}
	a, b := cv.MultisetDiff(want, got)
	if len(a) > 0 || len(b) > 0 {
		mode := "missing-rows"
		if len(a) == 0 {
			mode = "extra-rows"
		} else if len(b) > 0 {
			mode = "different-rows"
		}
		ww := w()
		ww["missing"], ww["extra"] = showAll(a, 5), showAll(b, 5)
		ww["bindings"] = q.OutBindings()
		r.Violation(mode+"/"+class, fmt.Sprintf("SELECT result differs from the solutions of its pattern: %d missing, %d extra (reference has %d rows)", len(a), len(b), len(want)), ww)
	}
	// the same statement on long-lived stores holding the same data (a memoizing
	// store that has already served other statements): same solutions
	for _, st2 := range also {
		r.Eval(1)
		tbl2, _, err2 := bq.Run(ctx, st2, text, chanSize, 10)
		if err2 != nil || tbl2 == nil {
			ww := w()
			ww["error"] = fmt.Sprint(err2)
			r.Violation("memoized-store/unexpected-error/"+class, fmt.Sprintf("the statement fails on a memoizing store that served other statements before: %v", err2), ww)
			continue
		}
		got2 := bq.TableRows(tbl2, q.OutBindings())
		if bq.DuplicatedAcrossGraphs(q.Graphs, data) {
			got2 = cv.Dedup(got2)
		}
		if a, b := cv.MultisetDiff(want, got2); len(a) > 0 || len(b) > 0 {
			ww := w()
			ww["missing"], ww["extra"] = showAll(a, 5), showAll(b, 5)
			r.Violation("memoized-store/different-rows/"+class, fmt.Sprintf("on a memoizing store that served other statements before, the SELECT differs from the solutions of its pattern: %d missing, %d extra", len(a), len(b)), ww)
		}
	}
	return len(want)
}

// memoFor keeps one memoizing store per data set for as long as the data set is
// in use, so that consecutive statements share its caches.
type memoFor struct {
	st map[string]memoEntry
}

// memoEntry keeps the data set alive next to its store: the key is the address
// of the data set, which the runtime may give to another data set once the old
// one has been collected.
type memoEntry struct {
	data bq.Data
	st   storage.Store
}

func (m *memoFor) get(ctx context.Context, data bq.Data) storage.Store {
	k := fmt.Sprintf("%p", data)
	if e, ok := m.st[k]; ok {
		return e.st
	}
	if m.st == nil || len(m.st) >= 4 {
		m.st = map[string]memoEntry{}
	}
	m.st[k] = memoEntry{data, memoization.New(bq.NewStore(ctx, data))}
	return m.st[k].st
}

// nearMiss: the data holds a triple that matches all but one component of
// some clause (with an empty environment).
func nearMiss(q *bq.Query, data bq.Data) bool {
	for _, c := range q.Clauses {
		for _, g := range q.Graphs {
			for _, t := range data[g] {
				if _, ok := bq.Match(c, t, bq.Env{}, nil, nil); ok {
					continue
				}
				// relax one component at a time
				for k := 0; k < 3; k++ {
					cc := c
					switch k {
					case 0:
						cc.S, cc.SAs, cc.SType, cc.SID = bq.B("?__s"), "", "", ""
					case 1:
						cc.P, cc.PAs, cc.PID, cc.PAt = bq.B("?__p"), "", "", ""
					case 2:
						cc.O, cc.OAs, cc.OType, cc.OID, cc.OAt = bq.B("?__o"), "", "", "", ""
					}
					if _, ok := bq.Match(cc, t, bq.Env{}, nil, nil); ok {
						return true
					}
				}
			}
		}
	}
	return false
}

func c03OneClause(r *rt.Rec, part, parts int, seed int64, maxExtr int) {
	ctx := context.Background()
	memo := &memoFor{}
	rng := gen.Rng(seed, "c03data", 0)
	sets := []bq.Data{gen.DataSet(rng, 1, 18, false), gen.DataSet(rng, 2, 14, false)}
	shapes := gen.AllShapes()
	for si, sh := range shapes {
		if si%parts != part {
			continue
		}
		if maxExtr >= 0 && sh.Extractions() > maxExtr {
			continue
		}
		for di, data := range sets {
			all := gen.AllTriples(data)
			graphs := gen.GraphVars[:len(data)]
			c := sh.Build(all, si+di*7, "")
			if len(c.Bindings()) == 0 {
				continue
			}
			q := gen.SelectAll([]bq.Clause{c}, graphs)
			n := compareSelect(ctx, r, q, data, "one:"+sh.String(), 0, memo.get(ctx, data))
			if n > 0 && nearMiss(q, data) {
				r.Nontrivial(fmt.Sprintf("%s|%d", sh, di))
			}
			if si < 2*parts && di == 0 {
				r.Sample(map[string]interface{}{"statement": q.Text(), "reference_rows": n})
			}
		}
	}
}

// patternClass builds the syntactic class of a multi-clause case.
func patternClass(q *bq.Query) string {
	var fs []string
	add := func(f string) {
		for _, x := range fs {
			if x == f {
				return
			}
		}
		fs = append(fs, f)
	}
	seen := map[string]string{} // binding -> sort of first occurrence
	sortsOf := func(c bq.Clause) map[string]string {
		m := map[string]string{}
		set := func(b, s string) {
			if b != "" {
				if _, ok := m[b]; !ok {
					m[b] = s
				}
			}
		}
		if c.S.Kind == bq.KBinding {
			set(c.S.Binding, "S")
		}
		if c.P.Kind == bq.KBinding {
			set(c.P.Binding, "P")
		}
		if c.O.Kind == bq.KBinding {
			set(c.O.Binding, "O")
		}
		if c.P.Kind == bq.KPBind {
			set(c.P.TBind, "Pt")
		}
		if c.O.Kind == bq.KPBind {
			set(c.O.TBind, "Ot")
		}
		set(c.SAs, "Sas")
		set(c.PAs, "Pas")
		set(c.OAs, "Oas")
		set(c.SType, "Stype")
		set(c.SID, "Sid")
		set(c.PID, "Pid")
		set(c.OType, "Otype")
		set(c.OID, "Oid")
		set(c.PAt, "Pat")
		set(c.OAt, "Oat")
		return m
	}
	for i, c := range q.Clauses {
		if c.S.Const() && c.P.Const() && c.O.Const() {
			if i > 0 && len(seen) > 0 {
				add("spec3-after-bound")
			} else {
				add("spec3-first")
			}
			if c.P.Kind == bq.KPred && c.P.Pred.Type() == 1 && (q.Before != nil || q.After != nil || q.Between != nil) {
				add("spec3-temporal+global-bounds")
			}
		}
		for b, s := range sortsOf(c) {
			if first, ok := seen[b]; ok {
				a, z := first, s
				if a > z {
					a, z = z, a
				}
				add("join:" + a + "~" + z)
			} else {
				seen[b] = s
			}
		}
		// a binding repeated inside one clause
		cnt := map[string]int{}
		for _, b := range c.Bindings() {
			cnt[b]++
		}
		for _, n := range cnt {
			if n > 1 {
				add("repeat-in-clause")
			}
		}
	}
	if len(q.Graphs) > 1 {
		add("multi-graph")
	}
	sort.Strings(fs)
	if len(fs) > 4 {
		fs = fs[:4]
	}
	return strings.Join(fs, ",")
}

func c03TwoClause(r *rt.Rec, part, parts int, seed int64, limit int) {
	ctx := context.Background()
	memo := &memoFor{}
	rng := gen.Rng(seed, "c03two", part)
	drng := gen.Rng(seed, "c03data2", 0)
	sets := []bq.Data{gen.DataSet(drng, 1, 16, false), gen.DataSet(drng, 2, 12, false)}
	shapes := gen.ReducedShapes()
	n := 0
	for i, s1 := range shapes {
		for j, s2 := range shapes {
			if (i*len(shapes)+j)%parts != part {
				continue
			}
			if limit > 0 && rng.Intn(len(shapes)*len(shapes)/limit+1) != 0 {
				continue
			}
			n++
			di := (i + j) % len(sets)
			data := sets[di]
			all := gen.AllTriples(data)
			c1 := s1.Build(all, i*3+j, "1")
			c2 := s2.Build(all, j*5+i, "2")
			k := (i + 2*j) % 3
			c2, _ = gen.Share(rng, []bq.Clause{c1}, c2, k)
			cs := []bq.Clause{c1, c2}
			q := gen.SelectAll(cs, gen.GraphVars[:len(data)])
			if len(q.Vars) == 0 {
				continue
			}
			rows := compareSelect(ctx, r, q, data, "two:"+patternClass(q), 0, memo.get(ctx, data))
			if rows > 0 && nearMiss(q, data) {
				r.Nontrivial(q.Text())
			}
			if n == 1 {
				r.Sample(map[string]interface{}{"statement": q.Text(), "reference_rows": rows})
			}
		}
	}
}

func c03Random(r *rt.Rec, rng *rand.Rand, n int) {
	ctx := context.Background()
	memo := &memoFor{}
	shapes := gen.ReducedShapes()
	var data bq.Data
	for i := 0; i < n; i++ {
		if i%20 == 0 {
			if rng.Intn(2) == 0 {
				data = gen.DataSet(rng, 1+rng.Intn(3), 8+rng.Intn(18), false)
			} else {
				data = gen.DenseDataSet(rng, 1+rng.Intn(3), 8+rng.Intn(16), false)
			}
		}
		all := gen.AllTriples(data)
		cs := gen.RandomPattern(rng, shapes, all, 2+rng.Intn(3))
		if rng.Intn(4) == 0 {
			// a clause whose bound takes its limits from time bindings of earlier clauses
			cs, _ = gen.AddBoundAlias(rng, cs[:1+rng.Intn(len(cs))])
		}
		// 1-3 FROM graphs out of those that exist
		var graphs []string
		for _, g := range gen.GraphVars[:len(data)] {
			if rng.Intn(3) != 0 {
				graphs = append(graphs, g)
			}
		}
		if len(graphs) == 0 {
			graphs = gen.GraphVars[:1]
		}
		q := gen.SelectAll(cs, graphs)
		if len(q.Vars) == 0 {
			continue
		}
		gen.RandomBounds(rng, q)
		gen.Reproject(rng, q)
		rows := compareSelect(ctx, r, q, data, "rnd:"+patternClass(q), []int{0, 1, 7}[rng.Intn(3)], memo.get(ctx, data))
		if rows > 0 && nearMiss(q, data) {
			r.Nontrivial(q.Text())
		}
		if i == 0 {
			r.Sample(map[string]interface{}{"statement": q.Text(), "reference_rows": rows})
		}
	}
}

func init() {
	register(&rt.Check{
		ID:    "C03",
		Level: "exploration",
		Rule: "(a) the one-clause shape space: subject {stored, absent, binding} x extractions {-, AS, TYPE, ID, TYPE+ID, AS+TYPE+ID}; predicate {immutable stored/absent, temporal, temporal in another zone, binding, \"id\"@[?t], \"id\"@[,], \"id\"@[T1,T2], \"id\"@[T2,]} x {-, AS, ID, AT, ...}; object {node, literal, predicate, binding, the subject's binding again, \"p\"@[?t], \"p\"@[T1,T2]} x {-, AS, TYPE, ID, AT, ...} (quick: at most one extraction; thorough: all ~27k shapes) on two data sets; (b) two-clause combinations of a reduced shape set sharing 0-2 bindings in any position pair (quick: sampled, thorough: all); (c) random 2-4 clause patterns with shared bindings, bounds whose limits are time bindings of earlier clauses (\"id\"@[?lo,?hi]), global BEFORE/AFTER/BETWEEN, 1-3 FROM graphs, projections with aliases; all rendered to BQL text and run through lexer, parser, planner and Execute, on a fresh memory store and on one long-lived memoizing store per data set (which has served the earlier statements); a sample of (c) under -race; " +
			"oracle: naive nested-loop evaluator of Appendix A, rows compared as multisets of kind-tagged canonical cells (sets when a triple sits in several listed graphs); an Execute error is a violation; non-trivial = reference result non-empty and the data holds a near miss (matches all but one component of a clause); distinct by statement text",
		Assume: []string{"reference semantics of DESIGN.md Appendix A (taken from the property and docs/bql.md)", "TYPE/ID string bindings are never reused in subject/predicate/object position (join of str with text literal is undefined)"},
		Floor:  300,
		Phases: func(tier string, seed int64) []rt.Phase {
			maxExtr, twoLimit, rnd := 1, 3000, 2000
			if tier == "thorough" {
				maxExtr, twoLimit, rnd = -1, 0, 20000
			}
			return []rt.Phase{
				{Name: "one-clause", N: 16, Exhaustive: true, Run: func(i int, r *rt.Rec) { c03OneClause(r, i, 16, seed, maxExtr) }},
				{Name: "two-clause", N: 16, Exhaustive: tier == "thorough", Run: func(i int, r *rt.Rec) { c03TwoClause(r, i, 16, seed, twoLimit) }},
				{Name: "random", N: 16, Run: func(i int, r *rt.Rec) { c03Random(r, gen.Rng(seed, "c03rnd", i), rnd/16) }},
				{Name: "random-race", N: 16, Race: true, Procs: 16, Run: func(i int, r *rt.Rec) { c03Random(r, gen.Rng(seed, "c03rr", i), rnd/160) }},
			}
		},
	})
}

var _ = rand.New
var _ = triple.New
