package checks

import (
	"context"
	"fmt"
	"math"
	"math/rand"
	"strings"
	"time"

	"bwverif/cv"
	"bwverif/gen"
	"bwverif/ref"
	"bwverif/rt"

	"github.com/google/badwolf/storage"
	"github.com/google/badwolf/storage/memory"
	"github.com/google/badwolf/triple"
	"github.com/google/badwolf/triple/literal"
)

// c01Universes are the three 4-triple universes of the exhaustive phase.
func c01Universes() [][]*triple.Triple {
	s, o := gen.MustNode("/u", "a"), triple.NewNodeObject(gen.MustNode("/u", "b"))
	p := gen.MustImm("p")
	lo := func(t literal.Type, v interface{}) *triple.Object { return triple.NewLiteralObject(gen.MustLit(t, v)) }
	return [][]*triple.Triple{
		{ // plain
			gen.MustTriple(s, p, o),
			gen.MustTriple(gen.MustNode("/u", "b"), gen.MustImm("q"), triple.NewNodeObject(s)),
			gen.MustTriple(gen.MustNode("/t", "a b"), gen.MustTemp("q", gen.T1), lo(literal.Text, "abc")),
			gen.MustTriple(s, gen.MustImm("_r"), triple.NewPredicateObject(gen.MustTemp("p", gen.T3))),
		},
		{ // differing only in kind / anchor (T2 is respelled in +01:00 by the batches)
			gen.MustTriple(s, p, o),
			gen.MustTriple(s, gen.MustTemp("p", gen.T1), o),
			gen.MustTriple(s, gen.MustTemp("p", gen.T2), o),
			gen.MustTriple(s, gen.MustTemp("p", gen.T2.Add(time.Nanosecond)), o),
		},
		{ // differing only in literal type (non-colliding encodings)
			gen.MustTriple(s, p, lo(literal.Int64, int64(5))),
			gen.MustTriple(s, p, lo(literal.Float64, 5.0)),
			gen.MustTriple(s, p, lo(literal.Text, "5")),
			gen.MustTriple(s, p, lo(literal.Blob, []byte{5})),
		},
	}
}

func maskBatch(mask int) []int {
	var b []int
	for i := 0; i < 4; i++ {
		if mask&(1<<i) != 0 {
			b = append(b, i)
		}
	}
	return b
}

// c01Small: every subset of a 4-triple universe, reached by two paths, and from
// it every single operation.
func c01Small(r *rt.Rec, ui int) {
	ctx := context.Background()
	univ := c01Universes()[ui]
	type batch struct {
		name string
		idx  []int
	}
	var batches []batch
	for m := 0; m < 16; m++ {
		batches = append(batches, batch{fmt.Sprintf("mask%d", m), maskBatch(m)})
	}
	batches = append(batches, batch{"dup", []int{0, 0, 1}}, batch{"dup-respelled", []int{2, -3, 2}}, batch{"all-twice", []int{0, 1, 2, 3, 3, 2, 1, 0}}, batch{"respelled-all", []int{-1, -2, -3, -4}})
	trans := 0
	for mask := 0; mask < 16; mask++ {
		for path := 0; path < 2; path++ {
			for _, kind := range []string{"add", "remove"} {
				for _, b := range batches {
					st := memory.NewStore()
					m := ref.Store{}
					var pre []storeOp
					pre = append(pre, storeOp{Kind: "new", Graph: "?g1"}, storeOp{Kind: "new", Graph: "?g2"})
					if path == 0 {
						pre = append(pre, storeOp{Kind: "add", Graph: "?g1", Batch: maskBatch(mask)})
					} else {
						pre = append(pre, storeOp{Kind: "add", Graph: "?g1", Batch: []int{3, 2, 1, 0}})
						for i := 0; i < 4; i++ {
							if mask&(1<<i) == 0 {
								pre = append(pre, storeOp{Kind: "remove", Graph: "?g1", Batch: []int{-(i + 1)}})
							}
						}
					}
					// the second graph holds the complement: it must stay untouched
					pre = append(pre, storeOp{Kind: "add", Graph: "?g2", Batch: maskBatch(15 &^ mask)})
					ops := append(pre, storeOp{Kind: kind, Graph: "?g1", Batch: b.idx})
					hist := func() interface{} {
						return map[string]interface{}{"universe": tripleStrings(univ), "history": histString(ops)}
					}
					r.Note(fmt.Sprintf("small universe %d: %s", ui, histString(ops)))
					for _, op := range ops {
						applyOp(ctx, r, st, m, univ, op, hist)
					}
					observeStore(ctx, r, st, m, univ, hist)
					trans++
				}
			}
		}
	}
	r.Eval(trans)
	r.NontrivialDistinct(trans - 2*16*2) // all but the empty-batch transitions
	r.Count("small_universe_transitions", trans)
	r.Sample(map[string]interface{}{"universe": tripleStrings(univ), "transitions": trans})
}

func tripleStrings(ts []*triple.Triple) []string {
	var res []string
	for _, t := range ts {
		res = append(res, t.String())
	}
	return res
}

func c01Histories(r *rt.Rec, rng *rand.Rand, n, steps int, wrap func(storage.Store) storage.Store) {
	ctx := context.Background()
	for h := 0; h < n; h++ {
		univ := gen.Universe(rng, 12)
		ops := genHistory(rng, steps, len(univ))
		var st storage.Store = memory.NewStore()
		if wrap != nil {
			st = wrap(st)
		}
		m := ref.Store{}
		upto := 0
		hist := func() interface{} {
			return map[string]interface{}{"universe": tripleStrings(univ), "history": histString(ops[:upto])}
		}
		obs := 0
		for i, op := range ops {
			upto = i + 1
			r.Note(fmt.Sprintf("history step %d: %s", i, op))
			applyOp(ctx, r, st, m, univ, op, hist)
			obs += observeStore(ctx, r, st, m, univ, hist)
		}
		r.Eval(len(ops))
		r.Count("observations", obs)
		if historyFeatures(ops) {
			r.Nontrivial(histString(ops) + fmt.Sprint(tripleStrings(univ)))
		}
		if h == 0 {
			r.Sample(map[string]interface{}{"history": histString(ops[:min(12, len(ops))]) + " ...", "universe_size": len(univ)})
		}
	}
}

// c01Collisions: value pairs that must be different triples (C01's last
// sentence). The classes are those of C06's known findings.
func c01Collisions(r *rt.Rec) {
	ctx := context.Background()
	p := gen.MustImm("p")
	s := gen.MustNode("/u", "a")
	lo := func(t literal.Type, v interface{}) *triple.Object { return triple.NewLiteralObject(gen.MustLit(t, v)) }
	type pair struct {
		a, b *triple.Triple
		cls  string
	}
	pairs := []pair{
		{gen.MustTriple(s, p, lo(literal.Text, "abc")), gen.MustTriple(s, p, lo(literal.Blob, []byte("abc"))), "literal-same-bytes-different-type"},
		{gen.MustTriple(s, p, lo(literal.Bool, true)), gen.MustTriple(s, p, lo(literal.Text, "true")), "literal-same-bytes-different-type"},
		{gen.MustTriple(gen.MustNode("/a/b", "c"), p, triple.NewNodeObject(s)), gen.MustTriple(gen.MustNode("/a", "/bc"), p, triple.NewNodeObject(s)), "node-type-id-boundary"},
		{gen.MustTriple(s, p, triple.NewNodeObject(gen.MustNode("/u", "b"))), gen.MustTriple(s, p, lo(literal.Text, "/ub")), "object-same-bytes-different-kind"},
		{gen.MustTriple(s, p, lo(literal.Text, "5")), gen.MustTriple(s, p, lo(literal.Int64, int64(5))), "distinct/text-vs-int64"},
		{gen.MustTriple(s, p, triple.NewNodeObject(s)), gen.MustTriple(s, gen.MustTemp("p", gen.T1), triple.NewNodeObject(s)), "distinct/immutable-vs-temporal"},
		{gen.MustTriple(s, gen.MustTemp("p", gen.T1), triple.NewNodeObject(s)), gen.MustTriple(s, gen.MustTemp("p", gen.T1.Add(1)), triple.NewNodeObject(s)), "distinct/instant"},
	}
	for _, pr := range pairs {
		for dir := 0; dir < 2; dir++ {
			a, b := pr.a, pr.b
			if dir == 1 {
				a, b = b, a
			}
			st := memory.NewStore()
			g, _ := st.NewGraph(ctx, "?g")
			r.Note("collision probe " + a.String() + " | " + b.String())
			g.AddTriples(ctx, []*triple.Triple{a})
			eb, _ := g.Exist(ctx, b)
			r.Eval(1)
			w := map[string]string{"added": a.String(), "asked": b.String()}
			if eb {
				r.Violation(pr.cls+"/exist-conflation", fmt.Sprintf("after adding %s, Exist(%s) is true", a, b), w)
			}
			g.AddTriples(ctx, []*triple.Triple{b})
			got, _ := listGraph(ctx, g)
			if len(got) != 2 {
				r.Violation(pr.cls+"/listing-conflation", fmt.Sprintf("after adding %s and %s the graph lists %d triples", a, b, len(got)), w)
			}
			g.RemoveTriples(ctx, []*triple.Triple{b})
			if ea, _ := g.Exist(ctx, a); !ea {
				r.Violation(pr.cls+"/remove-conflation", fmt.Sprintf("removing %s also removed %s", b, a), w)
			}
			r.Nontrivial(a.String() + "|" + b.String())
		}
	}
}

// c01Neighbours: pairs of triples that differ in exactly one component by a
// small change (C01's last sentence: they are different triples). Families:
// int64 objects v and v +- 2^k over the whole range, adjacent float64 values,
// texts / blobs / ids differing in their last byte or by a trailing NUL,
// anchors 2^k ns apart, node types and ids differing in one rune. Each pair goes
// through add a, Exist b, add b, list, remove b, Exist a, in both directions.
func c01Neighbours(r *rt.Rec, rng *rand.Rand, n int) {
	ctx := context.Background()
	p := gen.MustImm("p")
	s := gen.MustNode("/u", "a")
	so := triple.NewNodeObject(s)
	lo := func(t literal.Type, v interface{}) *triple.Object { return triple.NewLiteralObject(gen.MustLit(t, v)) }
	type pair struct {
		a, b *triple.Triple
		cls  string
	}
	var pairs []pair
	obj := func(cls string, a, b *triple.Object) {
		pairs = append(pairs, pair{gen.MustTriple(s, p, a), gen.MustTriple(s, p, b), cls})
	}
	// int64
	bases := []int64{0, 1, -1, math.MaxInt64, math.MinInt64, 1 << 55, -(1 << 55), 1 << 56, math.MaxInt64 - (1 << 55)}
	for i := 0; i < n; i++ {
		bases = append(bases, int64(rng.Uint64()))
	}
	for _, v := range bases {
		for k := uint(0); k < 64; k++ {
			w := v ^ (1 << k) // flips one bit: always a different value
			obj("int64-one-bit", lo(literal.Int64, v), lo(literal.Int64, w))
		}
	}
	// float64: neighbours in the value order, one-bit flips of the representation
	fb := []float64{0.5, 1, -1, 1e-300, 1e300, 0.1, 3, math.MaxFloat64, math.SmallestNonzeroFloat64}
	for i := 0; i < n; i++ {
		f := math.Float64frombits(rng.Uint64())
		if !math.IsNaN(f) && !math.IsInf(f, 0) {
			fb = append(fb, f)
		}
	}
	for _, f := range fb {
		obj("float64-adjacent", lo(literal.Float64, f), lo(literal.Float64, math.Nextafter(f, math.Inf(1))))
		for k := uint(0); k < 64; k += 3 {
			g := math.Float64frombits(math.Float64bits(f) ^ (1 << k))
			if !math.IsNaN(g) && g != f {
				obj("float64-one-bit", lo(literal.Float64, f), lo(literal.Float64, g))
			}
		}
	}
	// text / blob
	for _, t := range []string{"a", "abc", "", strings.Repeat("x", 300), "日本", "a b"} {
		obj("text-trailing-byte", lo(literal.Text, t), lo(literal.Text, t+"\x00"))
		obj("text-trailing-byte", lo(literal.Text, t+"a"), lo(literal.Text, t+"b"))
		obj("text-trailing-byte", lo(literal.Text, t), lo(literal.Text, t+" "))
		obj("blob-trailing-byte", lo(literal.Blob, []byte(t)), lo(literal.Blob, append([]byte(t), 0)))
		obj("blob-trailing-byte", lo(literal.Blob, append([]byte(t), 1)), lo(literal.Blob, append([]byte(t), 2)))
	}
	obj("bool", lo(literal.Bool, true), lo(literal.Bool, false))
	// anchors 2^k ns apart, in the predicate and in a reified predicate object
	for _, t0 := range []time.Time{gen.T1, gen.T3, gen.TFarFuture, gen.TFarPast, time.Unix(0, 0).UTC()} {
		for k := uint(0); k < 62; k++ {
			t1 := t0.Add(time.Duration(1) << k)
			pairs = append(pairs, pair{gen.MustTriple(s, gen.MustTemp("p", t0), so), gen.MustTriple(s, gen.MustTemp("p", t1), so), "anchor-2^k-ns"})
			if k%4 == 0 {
				obj("object-anchor-2^k-ns", triple.NewPredicateObject(gen.MustTemp("p", t0)), triple.NewPredicateObject(gen.MustTemp("p", t1)))
			}
		}
	}
	// ids and types
	for _, id := range []string{"p", "foo", "pimmutabl", "a b"} {
		pairs = append(pairs, pair{gen.MustTriple(s, gen.MustImm(id), so), gen.MustTriple(s, gen.MustImm(id+"\x00"), so), "predicate-id-trailing-byte"})
		pairs = append(pairs, pair{gen.MustTriple(s, gen.MustImm(id+"a"), so), gen.MustTriple(s, gen.MustImm(id+"b"), so), "predicate-id-trailing-byte"})
		pairs = append(pairs, pair{gen.MustTriple(s, gen.MustTemp(id, gen.T1), so), gen.MustTriple(s, gen.MustTemp(id+"\x00", gen.T1), so), "predicate-id-trailing-byte"})
		pairs = append(pairs, pair{gen.MustTriple(gen.MustNode("/u", id+"a"), p, so), gen.MustTriple(gen.MustNode("/u", id+"b"), p, so), "node-id-one-rune"})
		pairs = append(pairs, pair{gen.MustTriple(gen.MustNode("/u", id), p, so), gen.MustTriple(gen.MustNode("/v", id), p, so), "node-type-one-rune"})
		pairs = append(pairs, pair{gen.MustTriple(s, p, triple.NewNodeObject(gen.MustNode("/u/x", id))), gen.MustTriple(s, p, triple.NewNodeObject(gen.MustNode("/u/y", id))), "object-node-type-one-rune"})
	}
	st := memory.NewStore()
	g, _ := st.NewGraph(ctx, "?g")
	for _, pr := range pairs {
		if cv.Triple(pr.a) == cv.Triple(pr.b) {
			continue
		}
		for dir := 0; dir < 2; dir++ {
			a, b := pr.a, pr.b
			if dir == 1 {
				a, b = b, a
			}
			r.Note("neighbour probe " + a.String() + " | " + b.String())
			r.Eval(1)
			w := map[string]string{"a": a.String(), "b": b.String()}
			g.AddTriples(ctx, []*triple.Triple{a})
			if eb, _ := g.Exist(ctx, b); eb {
				r.Violation("neighbours/"+pr.cls+"/exist-conflation", fmt.Sprintf("after adding %s, Exist(%s) is true", a, b), w)
			}
			g.AddTriples(ctx, []*triple.Triple{b})
			got, _ := listGraph(ctx, g)
			if len(got) != 2 {
				r.Violation("neighbours/"+pr.cls+"/listing-conflation", fmt.Sprintf("after adding %s and %s the graph lists %d triples", a, b, len(got)), w)
			}
			g.RemoveTriples(ctx, []*triple.Triple{b})
			if ea, _ := g.Exist(ctx, a); !ea {
				r.Violation("neighbours/"+pr.cls+"/remove-conflation", fmt.Sprintf("removing %s also removed %s", b, a), w)
			}
			g.RemoveTriples(ctx, []*triple.Triple{a})
			if got, _ := listGraph(ctx, g); len(got) != 0 {
				r.Violation("neighbours/"+pr.cls+"/not-removed", fmt.Sprintf("after removing both, the graph still lists %d triples", len(got)), w)
				g.RemoveTriples(ctx, []*triple.Triple{a, b})
			}
		}
		r.Nontrivial(pr.a.String() + "|" + pr.b.String())
	}
}

// c01Bulk: one AddTriples / RemoveTriples call with thousands of triples (sizes
// at and around powers of two and round thousands): every triple of the batch
// is stored (Exist, listing count), removing a batch removes exactly it, and
// another graph of the same store is untouched.
func c01Bulk(r *rt.Rec, rng *rand.Rand, which int) {
	ctx := context.Background()
	sizes := [][]int{{1000, 2000, 2001}, {1024, 2048, 3000}, {999, 4096, 5000}, {1, 4000, 1999 + rng.Intn(3)}}[which%4]
	// and sizes that are no multiple of anything in particular
	sizes = append(sizes, 2049+rng.Intn(7), 4097+rng.Intn(7), 2050+rng.Intn(4000))
	for _, n := range sizes {
		st := memory.NewStore()
		g, _ := st.NewGraph(ctx, "?g")
		other, _ := st.NewGraph(ctx, "?other")
		keep := gen.MustTriple(gen.VNodes[0], gen.MustImm("p"), triple.NewNodeObject(gen.VNodes[1]))
		other.AddTriples(ctx, []*triple.Triple{keep})
		ts := make([]*triple.Triple, n)
		for i := range ts {
			ts[i] = gen.MustTriple(gen.MustNode("/u", fmt.Sprintf("s%d", i%97)), gen.MustImm(fmt.Sprintf("p%d", i%13)), triple.NewLiteralObject(gen.MustLit(literal.Int64, int64(i))))
		}
		r.Begin(fmt.Sprintf("bulk AddTriples of %d triples", n))
		r.Eval(1)
		if err := g.AddTriples(ctx, ts); err != nil {
			r.Violation("bulk/add-error", err.Error(), n)
			continue
		}
		missing := 0
		for _, t := range ts {
			if ok, _ := g.Exist(ctx, t); !ok {
				missing++
			}
		}
		got, _ := listGraph(ctx, g)
		if missing > 0 || len(got) != n {
			r.Violation("bulk/add-incomplete", fmt.Sprintf("after one AddTriples call with %d triples, Exist misses %d of them and the listing holds %d", n, missing, len(got)), map[string]int{"batch": n, "missing": missing, "listed": len(got)})
		}
		// remove the second half in one call
		half := ts[n/2:]
		r.Begin(fmt.Sprintf("bulk RemoveTriples of %d of %d triples", len(half), n))
		g.RemoveTriples(ctx, half)
		left, _ := listGraph(ctx, g)
		still := 0
		for _, t := range half {
			if ok, _ := g.Exist(ctx, t); ok {
				still++
			}
		}
		if still > 0 || len(left) != n-len(half) {
			r.Violation("bulk/remove-incomplete", fmt.Sprintf("after one RemoveTriples call with %d of %d triples, %d of them still exist and the listing holds %d", len(half), n, still, len(left)), map[string]int{"batch": len(half), "still": still, "listed": len(left)})
		}
		if o, _ := listGraph(ctx, other); len(o) != 1 {
			r.Violation("bulk/other-graph-changed", fmt.Sprintf("another graph of the store lists %d triples after the bulk operations, it held 1", len(o)), n)
		}
		r.NontrivialDistinct(1)
	}
}

func init() {
	register(&rt.Check{
		ID:    "C01",
		Level: "exploration",
		Rule: "(a) three 4-triple universes (plain; differing only in predicate kind/anchor incl. 1ns and a respelled zone; differing only in literal type): every subset, reached by two operation paths, then every single AddTriples/RemoveTriples batch (all 16 subsets, duplicates, respelled, empty) — enumerated completely; (b) random histories of NewGraph/Graph/DeleteGraph/GraphNames/AddTriples/RemoveTriples over 3 names and a 12-triple universe, observed after every step (GraphNames, Graph ok/err, Exist of every universe triple, full listing as a multiset) against a map name->set model; (c) near-colliding value pairs; (e) bulk: one AddTriples / RemoveTriples call with 1000-5000 triples (round thousands, powers of two and their neighbours); (d) neighbour pairs: triples differing in one component by a small change (one bit of an int64 / float64 over the whole range, adjacent floats, trailing byte of a text / blob / id, anchors 2^k ns apart, one rune of a node type or id), each through add a, Exist b, add b, list, remove b, Exist a in both directions; " +
			"non-trivial history = has a re-add, a remove of an absent triple, overlapping consecutive batches and touches >=2 graphs; distinct by op sequence + universe",
		Assume: []string{"triple identity in the model is the accessor-based canonical triple (zone ignored)", "operations go through a fresh Graph() handle each time"},
		Floor:  200,
		Phases: func(tier string, seed int64) []rt.Phase {
			n, steps, nb := 304, 40, 6
			if tier == "thorough" {
				n, steps, nb = 5008, 60, 200
			}
			return []rt.Phase{
				{Name: "small", N: 3, Exhaustive: true, Run: func(i int, r *rt.Rec) { c01Small(r, i) }},
				{Name: "collisions", N: 1, Exhaustive: true, Run: func(i int, r *rt.Rec) { c01Collisions(r) }},
				{Name: "bulk", N: 4, Run: func(i int, r *rt.Rec) { c01Bulk(r, gen.Rng(seed, "c01b", i), i) }},
				{Name: "neighbours", N: 4, Run: func(i int, r *rt.Rec) { c01Neighbours(r, gen.Rng(seed, "c01n", i), nb) }},
				{Name: "histories", N: 16, Run: func(i int, r *rt.Rec) { c01Histories(r, gen.Rng(seed, "c01h", i), n/16, steps, nil) }},
			}
		},
	})
}
