package checks

import (
	"bwverif/ref"

	"context"
	"fmt"
	"math/rand"
	"sort"
	"strings"

	"bwverif/bq"
	"bwverif/cv"
	"bwverif/gen"
	"bwverif/gram"
	"bwverif/rt"

	"github.com/google/badwolf/storage"
	"github.com/google/badwolf/triple"
	"github.com/google/badwolf/triple/literal"
	"github.com/google/badwolf/triple/predicate"
)

// storeData reads every graph of the store as triples.
func storeData(ctx context.Context, st storage.Store) (bq.Data, error) {
	names, err := storeNames(ctx, st)
	if err != nil {
		return nil, err
	}
	d := bq.Data{}
	for _, n := range names {
		g, err := st.Graph(ctx, n)
		if err != nil {
			return nil, err
		}
		ts, err := listGraph(ctx, g)
		if err != nil {
			return nil, err
		}
		d[n] = ts
	}
	return d, nil
}

func canonData(d bq.Data) map[string][]string {
	res := map[string][]string{}
	for g, ts := range d {
		res[g] = cv.Dedup(canonSet(ts))
		if res[g] == nil {
			res[g] = []string{}
		}
	}
	return res
}

func setOf(xs []string) map[string]bool {
	m := map[string]bool{}
	for _, x := range xs {
		m[x] = true
	}
	return m
}

func sortedKeys(m map[string]bool) []string {
	var ks []string
	for k := range m {
		ks = append(ks, k)
	}
	sort.Strings(ks)
	return ks
}

func isBlank(t *triple.Triple) bool { return t.Subject().Type().String() == "/_" }

// c04Sequence draws a statement sequence.
func c04Sequence(rng *rand.Rand, n int) []*bq.Stmt {
	var seq []*bq.Stmt
	seq = append(seq, &bq.Stmt{Kind: "create", Graphs: []string{"?g1", "?g2"}})
	pool := gen.AllTriples(gen.DenseDataSet(rng, 1, 16, true))
	if rng.Intn(2) == 0 {
		// listed triples that differ only in white space at the edges of a text,
		// in letter case, or in the spelling of a number are different triples
		s, p := gen.VNodes[rng.Intn(3)], gen.MustImm("p")
		for _, txt := range []string{"abc", " abc", "abc ", "ABC", "a\tbc", ""} {
			pool = append(pool, gen.MustTriple(s, p, triple.NewLiteralObject(gen.MustLit(literal.Text, txt))))
		}
		rng.Shuffle(len(pool), func(a, b int) { pool[a], pool[b] = pool[b], pool[a] })
	}
	seq = append(seq, &bq.Stmt{Kind: "insert", Graphs: []string{"?g1"}, Triples: pool[:len(pool)/2]})
	seq = append(seq, &bq.Stmt{Kind: "insert", Graphs: []string{"?g2", "?g1"}, Triples: pool[len(pool)/3:]})
	// every sequence gets a reifying CONSTRUCT over many rows, a DECONSTRUCT that
	// mirrors a pattern, and a CONSTRUCT naming a graph that is never created
	sp := bq.Clause{S: bq.B("?s"), P: bq.B("?p"), O: bq.B("?o")}
	must := []*bq.Stmt{
		{Kind: "construct", In: []string{"?g1"}, Out: []string{"?g2", "?g1"}[:1+rng.Intn(2)], Where: []bq.Clause{sp},
			Templates: []bq.Template{{S: bq.B("?s"), Pairs: []bq.Pair{{P: bq.B("?p"), O: bq.B("?o")}, {P: bq.P(gen.MustImm("c1")), O: bq.B("?s")}, {P: bq.P(gen.MustTemp("c2", gen.T1)), O: bq.L(gen.VLits[3])}}[:2+rng.Intn(2)]}}},
		{Kind: "deconstruct", In: []string{"?g1", "?g2"}[:1+rng.Intn(2)], Out: []string{"?g1"}, Where: []bq.Clause{{S: bq.B("?s"), P: bq.PB("p", "?t"), O: bq.B("?o")}},
			Templates: []bq.Template{{S: bq.B("?s"), Pairs: []bq.Pair{{P: bq.PB("p", "?t"), O: bq.B("?o")}}}}},
		{Kind: "construct", In: []string{"?g1"}, Out: []string{"?g4"}, Where: []bq.Clause{sp}, Templates: []bq.Template{{S: bq.B("?s"), Pairs: []bq.Pair{{P: bq.B("?p"), O: bq.B("?o")}}}}},
	}
	at := map[int]*bq.Stmt{}
	for _, m := range must {
		at[3+rng.Intn(n-3)] = m
	}
	for len(seq) < n {
		if m, ok := at[len(seq)]; ok {
			seq = append(seq, m)
			continue
		}
		switch x := rng.Intn(20); {
		case x < 2:
			seq = append(seq, &bq.Stmt{Kind: "create", Graphs: gen.SomeGraphs(rng, 1+rng.Intn(2))})
		case x < 3:
			seq = append(seq, &bq.Stmt{Kind: "drop", Graphs: gen.SomeGraphs(rng, 1+rng.Intn(2))})
		case x < 6:
			seq = append(seq, gen.DataStmt(rng, "insert", pool))
		case x < 9:
			seq = append(seq, gen.DataStmt(rng, "delete", pool))
		case x < 13:
			seq = append(seq, withBindings(rng, "construct", pool))
		case x < 16:
			seq = append(seq, withBindings(rng, "deconstruct", pool))
		case x < 17:
			seq = append(seq, &bq.Stmt{Kind: "show"})
		default:
			// a statement that must be rejected before execution starts
			var base *bq.Stmt
			switch rng.Intn(3) {
			case 0:
				base = gen.DataStmt(rng, []string{"insert", "delete"}[rng.Intn(2)], pool)
			default:
				base = gen.ConstructStmtMatching(rng, []string{"construct", "deconstruct"}[rng.Intn(2)], pool)
			}
			text := base.Text()
			switch rng.Intn(3) {
			case 0: // truncated at a token boundary
				toks, _ := gram.Lex(text, 0)
				if spans, ok := embed(text, toks); ok && len(toks) > 3 {
					text = text[:spans[1+rng.Intn(len(toks)-2)].start]
				}
			case 1: // an unknown binding
				if base.Kind == "construct" || base.Kind == "deconstruct" {
					base.Templates[0].S = bq.B("?unknown")
					text = base.Text()
				} else {
					text = strings.Replace(text, "{", "{ ?unknown", 1)
				}
			default: // a token replaced by garbage
				text = strings.Replace(text, "{", "{ ;", 1)
			}
			seq = append(seq, &bq.Stmt{Kind: "raw", Raw: text})
		}
	}
	return seq
}

// withBindings draws a construct / deconstruct whose WHERE pattern mentions at
// least one binding (patterns without bindings are confined to the probe).
func withBindings(rng *rand.Rand, kind string, pool []*triple.Triple) *bq.Stmt {
	for {
		s := gen.ConstructStmtMatching(rng, kind, pool)
		if len(gen.SelectAll(s.Where, s.In).Vars) > 0 {
			return s
		}
	}
}

// c04Probe is the pinned witness of the known finding: CONSTRUCT and
// DECONSTRUCT over a satisfiable WHERE pattern without bindings.
func c04Probe() []*bq.Stmt {
	a, b := gen.VNodes[0], gen.VNodes[1]
	t := gen.MustTriple(a, gen.MustImm("p"), triple.NewNodeObject(b))
	guard := []bq.Clause{{S: bq.N(a), P: bq.P(gen.MustImm("p")), O: bq.N(b)}}
	tmpl := []bq.Template{{S: bq.N(b), Pairs: []bq.Pair{{P: bq.P(gen.MustImm("c1")), O: bq.N(a)}}}}
	return []*bq.Stmt{
		{Kind: "create", Graphs: []string{"?g1", "?g2"}},
		{Kind: "insert", Graphs: []string{"?g1"}, Triples: []*triple.Triple{t}},
		{Kind: "construct", Templates: tmpl, Out: []string{"?g2"}, In: []string{"?g1"}, Where: guard},
		{Kind: "insert", Graphs: []string{"?g2"}, Triples: []*triple.Triple{gen.MustTriple(b, gen.MustImm("c1"), triple.NewNodeObject(a))}},
		{Kind: "deconstruct", Templates: tmpl, Out: []string{"?g2"}, In: []string{"?g1"}, Where: guard},
	}
}

// c04IndexCheck compares, for every graph, the compound-index lookups of every
// listed triple with the same selection applied to the listing.
func c04IndexCheck(ctx context.Context, r *rt.Rec, st storage.Store, data bq.Data, kind string, w func() map[string]interface{}) {
	for gname, ts := range data {
		g, err := st.Graph(ctx, gname)
		if err != nil {
			continue
		}
		seen := map[string]bool{}
		// at most ~40 triples per graph are probed (every k-th), so that the cost
		// stays linear in the size of the graph; the harness's own work announces
		// progress to the watchdog
		step := 1 + len(ts)/40
		for ti, t := range ts {
			if ti%step != 0 {
				continue
			}
			r.Note(fmt.Sprintf("index check of %s after %s (%d/%d)", gname, kind, ti, len(ts)))
			for _, q := range []ref.Query{
				{Method: "Objects", S: t.Subject(), P: t.Predicate()},
				{Method: "Subjects", P: t.Predicate(), O: t.Object()},
				{Method: "PredicatesForSubjectAndObject", S: t.Subject(), O: t.Object()},
				{Method: "TriplesForSubject", S: t.Subject()},
				{Method: "TriplesForObject", O: t.Object()},
			} {
				k := q.String() + q.Method
				if seen[k] {
					continue
				}
				seen[k] = true
				want, _ := ref.Lookup(ts, q, storage.DefaultLookup)
				got, _, _ := ref.Call(ctx, g, q, storage.DefaultLookup)
				sortStrings(got)
				r.Count("index_lookups_compared", 1)
				if strings.Join(got, "\x1c") != strings.Join(want, "\x1c") {
					ww := w()
					ww["graph"], ww["lookup"], ww["lookup_returns"], ww["listing_gives"] = gname, q.String(), len(got), len(want)
					r.Violation("index-inconsistent/"+q.Method+"/after-"+kind, fmt.Sprintf("after the statement, %s on %s returns %d results while the graph's listing holds %d matching triples", q, gname, len(got), len(want)), ww)
					return
				}
			}
		}
	}
}

func c04Run(r *rt.Rec, rng *rand.Rand, nseq int, probe bool) {
	ctx := context.Background()
	for si := 0; si < nseq; si++ {
		seq := c04Sequence(rng, 10+rng.Intn(16))
		if si == 0 && probe {
			seq = c04Probe()
		}
		st := bq.NewStore(ctx, bq.Data{})
		var hist []string
		features := map[string]bool{}
		for _, s := range seq {
			text := s.Text()
			hist = append(hist, text)
			before, err := storeData(ctx, st)
			if err != nil {
				r.Violation("snapshot-error", err.Error(), hist)
				break
			}
			cb := canonData(before)
			w := func() map[string]interface{} {
				return map[string]interface{}{"history": hist, "statement": text, "graphs_before": showGraphs(cb)}
			}
			// reference rows for construct / deconstruct, cross-checked with the real SELECT
			var envs []bq.Env
			rowsKnown := true
			if s.Kind == "construct" || s.Kind == "deconstruct" {
				inputsExist := true
				for _, g := range append(append([]string{}, s.In...), s.Out...) {
					if _, ok := before[g]; !ok {
						inputsExist = false
					}
				}
				if inputsExist {
					var ok bool
					envs, ok = bq.SolveMax(s.Where, s.In, before, nil, nil, 400)
					if !ok {
						r.Count("skipped_too_many_solutions", 1)
						hist = hist[:len(hist)-1]
						continue
					}
					sel := gen.SelectAll(s.Where, s.In)
					if len(sel.Vars) > 0 {
						tbl, _, err := bq.Run(ctx, st, sel.Text(), 0, 10)
						want := bq.ProjectRows(envs, sel.Vars)
						if err != nil || tbl == nil {
							rowsKnown = false
						} else {
							got := bq.TableRows(tbl, sel.OutBindings())
							if bq.DuplicatedAcrossGraphs(s.In, before) {
								got, want = cv.Dedup(got), cv.Dedup(want)
							}
							if a, b := cv.MultisetDiff(want, got); len(a) > 0 || len(b) > 0 {
								rowsKnown = false
							}
						}
						if !rowsKnown {
							// C03's business: not judged here
							r.Inconclusive("SELECT of the WHERE pattern disagrees with the reference: " + sel.Text())
							hist = hist[:len(hist)-1]
							continue
						}
					}
				}
			}
			r.Begin(text)
			r.Eval(1)
			var runErr error
			bulk := []int{1, 3, 1000}[rng.Intn(3)]
			if guard(r, "execute/"+s.Kind, text, func() { _, _, runErr = bq.Run(ctx, st, text, []int{0, 2}[rng.Intn(2)], bulk) }) {
				break
			}
			after, err := storeData(ctx, st)
			if err != nil {
				r.Violation("snapshot-error", err.Error(), hist)
				break
			}
			ca := canonData(after)
			// what a graph holds is also what its indexed lookups serve: after a
			// statement that removes triples (and now and then after any other) the
			// S+P, P+O and S+O lookups of every listed triple are compared with the
			// listing
			if s.Kind == "delete" || s.Kind == "deconstruct" || rng.Intn(6) == 0 {
				c04IndexCheck(ctx, r, st, after, s.Kind, w)
			}
			unchanged := func(except map[string]bool) bool {
				ok := true
				for g := range cb {
					if except[g] {
						continue
					}
					if _, still := ca[g]; !still || strings.Join(ca[g], "\x1c") != strings.Join(cb[g], "\x1c") {
						ok = false
					}
				}
				for g := range ca {
					if _, was := cb[g]; !was && !except[g] {
						ok = false
					}
				}
				return ok
			}
			report := func(key, what string) {
				ww := w()
				ww["graphs_after"] = showGraphs(ca)
				ww["error"] = fmt.Sprint(runErr)
				r.Violation(key, what, ww)
			}
			switch s.Kind {
			case "raw":
				features["rejected"] = true
				if runErr == nil {
					report("rejected-statement-accepted", "a malformed statement was executed without error")
				} else if !unchanged(nil) {
					report("rejected-statement-changed-store", "a statement rejected before execution changed the store")
				}
			case "show":
				if !unchanged(nil) {
					report("show-changed-store", "SHOW GRAPHS changed the store")
				}
			case "create", "drop":
				named := setOf(s.Graphs)
				if !unchanged(named) {
					report(s.Kind+"-touched-other-graph", s.Kind+" changed a graph it does not name")
				}
				allFresh, allThere := true, true
				for g := range named {
					if _, was := cb[g]; was {
						allFresh = false
					} else {
						allThere = false
					}
				}
				dupNames := len(named) != len(s.Graphs)
				if s.Kind == "create" {
					if runErr == nil && (!allFresh || dupNames) {
						report("create-existing-no-error", "CREATE of an existing graph reported success")
					}
					for g := range named {
						_, was := cb[g]
						_, is := ca[g]
						if was && (!is || strings.Join(ca[g], "\x1c") != strings.Join(cb[g], "\x1c")) {
							report("create-damaged-existing-graph", "CREATE changed an existing graph: "+g)
						}
						if !was && !is && runErr == nil {
							report("create-missing-graph", "CREATE succeeded but the graph does not exist: "+g)
						}
						if !was && is && len(ca[g]) != 0 {
							report("create-nonempty-graph", "a created graph is not empty: "+g)
						}
					}
				} else {
					if runErr == nil && (!allThere || dupNames) {
						report("drop-missing-no-error", "DROP of a missing graph reported success")
					}
					for g := range named {
						_, was := cb[g]
						_, is := ca[g]
						if was && is && runErr == nil {
							report("drop-left-graph", "DROP succeeded but the graph still exists: "+g)
						}
						if !was && is {
							report("drop-created-graph", "DROP created a graph: "+g)
						}
					}
				}
			case "insert", "delete":
				targets := setOf(s.Graphs)
				if !unchanged(targets) {
					report(s.Kind+"-touched-other-graph", s.Kind+" changed a graph that is not one of its targets")
				}
				listed := setOf(canonSet(s.Triples))
				missing := false
				for g := range targets {
					if _, was := cb[g]; !was {
						missing = true
						if _, is := ca[g]; is {
							report(s.Kind+"-created-graph", s.Kind+" created the missing graph "+g)
						}
					}
				}
				if missing != (runErr != nil) {
					report(s.Kind+"-error-mismatch", fmt.Sprintf("%s with missing target=%v returned err=%v", s.Kind, missing, runErr))
				}
				for g := range targets {
					if _, was := cb[g]; !was {
						continue
					}
					want := setOf(cb[g])
					for t := range listed {
						if s.Kind == "insert" {
							want[t] = true
						} else {
							delete(want, t)
						}
					}
					gotS := strings.Join(ca[g], "\x1c")
					if runErr != nil {
						// failed execution: the target is either untouched or fully updated
						if gotS != strings.Join(cb[g], "\x1c") && gotS != strings.Join(sortedKeys(want), "\x1c") {
							report(s.Kind+"-partial-target", "after a failed "+s.Kind+" target "+g+" is neither unchanged nor fully updated")
						}
						continue
					}
					if gotS != strings.Join(sortedKeys(want), "\x1c") {
						a, b := cv.MultisetDiff(sortedKeys(want), ca[g])
						report(s.Kind+"-wrong-content", fmt.Sprintf("after %s graph %s differs from previous content %s the listed triples: %d missing, %d extra", s.Kind, g, map[string]string{"insert": "plus", "delete": "minus"}[s.Kind], len(a), len(b)))
					}
				}
				if len(s.Graphs) > 1 {
					features["multi-target"] = true
				}
			case "construct", "deconstruct":
				outs := setOf(s.Out)
				if !unchanged(outs) {
					report(s.Kind+"-touched-other-graph", s.Kind+" changed a graph that is not one of its output graphs")
				}
				exists := true
				for _, g := range append(append([]string{}, s.In...), s.Out...) {
					if _, ok := cb[g]; !ok {
						exists = false
					}
				}
				if !exists {
					features["rejected"] = true
					if runErr == nil {
						report(s.Kind+"-missing-graph-no-error", s.Kind+" naming a graph that does not exist reported success")
					}
					if !unchanged(nil) {
						report(s.Kind+"-missing-graph-changed-store", s.Kind+" naming a graph that does not exist changed the store")
					}
					break
				}
				// instantiate the templates once per solution row
				var plain []string
				var reif []string
				bad := false
				for _, tm := range s.Templates {
					for _, e := range envs {
						in, err := bq.Instantiate(tm, e)
						if err != nil {
							bad = true
							break
						}
						if in.Reify {
							reif = append(reif, reifSignature(in))
						} else {
							plain = append(plain, cv.Triple(in.Plain))
						}
					}
				}
				if bad {
					// ill-typed instantiation: must fail; effects are not specified
					if runErr == nil {
						report(s.Kind+"-ill-typed-no-error", "a template that cannot be instantiated for some row did not produce an error")
					}
					break
				}
				if runErr != nil {
					report(s.Kind+"-unexpected-error/"+errClass(runErr), s.Kind+" failed: "+runErr.Error())
					break
				}
				// a WHERE pattern that mentions no binding has one (empty) solution
				// when it is satisfiable: a class of its own in the violation keys
				cls := ""
				if len(gen.SelectAll(s.Where, s.In).Vars) == 0 {
					cls = "where-without-bindings/"
				}
				openMult := bq.DuplicatedAcrossGraphs(s.In, before)
				sort.Strings(reif)
				for g := range outs {
					want := setOf(cb[g])
					gotSet := setOf(ca[g])
					if s.Kind == "deconstruct" {
						for _, t := range plain {
							delete(want, t)
						}
						if strings.Join(sortedKeys(want), "\x1c") != strings.Join(ca[g], "\x1c") {
							a, b := cv.MultisetDiff(sortedKeys(want), ca[g])
							report(cls+"deconstruct-wrong-content", fmt.Sprintf("after DECONSTRUCT graph %s: %d triples missing, %d extra relative to previous minus instantiated templates", g, len(a), len(b)))
						}
						continue
					}
					// construct: previous content is kept
					for t := range want {
						if !gotSet[t] {
							report("construct-lost-triple", "CONSTRUCT removed a triple from output graph "+g)
						}
					}
					for _, t := range plain {
						want[t] = true
					}
					// new triples: plain ones must be exactly the instantiated ones;
					// the rest must hang off fresh blank nodes
					groups := map[string][]*triple.Triple{}
					for _, t := range after[g] {
						c := cv.Triple(t)
						if want[c] {
							continue
						}
						if !isBlank(t) {
							report("construct-extra-triple", "CONSTRUCT added a triple that no template instance yields: "+t.String())
							continue
						}
						groups[cv.Node(t.Subject())] = append(groups[cv.Node(t.Subject())], t)
					}
					for t := range want {
						if !gotSet[t] {
							report(cls+"construct-missing-triple", "CONSTRUCT did not add an instantiated template triple to "+g+": "+cv.Show(t))
						}
					}
					var gotSigs []string
					for b, ts := range groups {
						// freshness: the blank node occurs nowhere before
						for og, ots := range before {
							for _, t := range ots {
								if cv.Node(t.Subject()) == b || cv.Obj(t.Object()) == b {
									report("construct-blank-node-not-fresh", "the blank node of a reification already occurred in graph "+og)
								}
							}
						}
						gotSigs = append(gotSigs, groupSignature(ts))
					}
					sort.Strings(gotSigs)
					ws, gs := reif, gotSigs
					if openMult {
						ws, gs = cv.Dedup(ws), cv.Dedup(gs)
					}
					if a, b := cv.MultisetDiff(ws, gs); len(a) > 0 || len(b) > 0 {
						ww := w()
						ww["graphs_after"] = showGraphs(ca)
						ww["missing_reifications"], ww["unexpected_reifications"] = showAll(a, 3), showAll(b, 3)
						r.Violation(cls+"construct-reification-mismatch", fmt.Sprintf("reifications in %s differ from one per solution row: %d missing, %d unexpected", g, len(a), len(b)), ww)
					}
				}
				if len(reif) >= 2 {
					features["reify2"] = true
				}
				if s.Kind == "deconstruct" && len(plain) > 0 {
					for _, t := range plain {
						for g := range outs {
							if setOf(cb[g])[t] {
								features["deconstruct-removes"] = true
							}
						}
					}
				}
			}
		}
		r.Count("sequences", 1)
		if features["reify2"] && features["deconstruct-removes"] && features["rejected"] {
			r.Nontrivial(strings.Join(hist, "\n"))
		}
		if si == 0 {
			r.Sample(map[string]interface{}{"sequence": hist})
		}
	}
}

// reifSignature / groupSignature: what hangs off one blank node, canonically.
func reifSignature(in *bq.Instance) string {
	kind := func(id string) string {
		if in.P.Type() == predicate.Temporal {
			ta, _ := in.P.TimeAnchor()
			return cv.Pred(gen.MustTemp(id, *ta))
		}
		return cv.Pred(gen.MustImm(id))
	}
	parts := []string{
		kind("_subject") + "\x1f" + cv.Node(in.S),
		kind("_predicate") + "\x1f" + cv.Pred(in.P),
		kind("_object") + "\x1f" + cv.Obj(in.O),
	}
	for _, e := range in.Extras {
		parts = append(parts, cv.Pred(e.P)+"\x1f"+cv.Obj(e.O))
	}
	sort.Strings(parts)
	return strings.Join(cv.Dedup(parts), "\x1e")
}

func groupSignature(ts []*triple.Triple) string {
	var parts []string
	for _, t := range ts {
		parts = append(parts, cv.Pred(t.Predicate())+"\x1f"+cv.Obj(t.Object()))
	}
	sort.Strings(parts)
	return strings.Join(cv.Dedup(parts), "\x1e")
}

func showGraphs(c map[string][]string) map[string][]string {
	res := map[string][]string{}
	for g, ts := range c {
		res[g] = []string{}
		for _, t := range ts {
			res[g] = append(res[g], cv.Show(t))
		}
	}
	return res
}

func init() {
	register(&rt.Check{
		ID:    "C04",
		Level: "exploration",
		Rule: "sequences of 10-25 statements over four graph names (one never created): CREATE / DROP of one or two names (existing, missing, repeated), INSERT / DELETE with duplicate, respelled and overlapping triples into 1-2 graphs, CONSTRUCT / DECONSTRUCT with templates from constants, bindings, anchor bindings 'id'@[?t] and ';' reification over 1-2 input and 1-2 output graphs with bulk sizes 1/3/1000, SHOW, and statements that must be rejected before execution (truncated at a token boundary, unknown binding, garbage token, CONSTRUCT naming a missing graph); " +
			"monitor: full listing of every graph before and after each statement; oracle: INSERT/DELETE = union/difference with the listed triples per existing target, CONSTRUCT/DECONSTRUCT = templates instantiated once per reference solution row (cross-checked with the real SELECT of the same WHERE; disagreement => inconclusive), reification checked structurally (three reification triples with the predicate's kind and anchor + extra facts on one fresh blank node per row), untouched graphs byte-for-byte unchanged, rejected statements change nothing; non-trivial sequence = has a reifying CONSTRUCT with >=2 rows, a DECONSTRUCT that removes something and a rejected statement; distinct by statement sequence",
		Assume: []string{"explicit blank nodes (_:v) are left to C08 (two readings are admissible)", "a failed INSERT/DELETE may have updated some of its existing targets completely (per-target atomicity only)", "ill-typed template instantiations must fail; their partial effects are not specified"},
		Floor:  20,
		Phases: func(tier string, seed int64) []rt.Phase {
			n := 640
			if tier == "thorough" {
				n = 8000
			}
			return []rt.Phase{{Name: "sequences", N: 32, Run: func(i int, r *rt.Rec) { c04Run(r, gen.Rng(seed, "c04", i), n/32, i == 0) }}}
		},
	})
}
