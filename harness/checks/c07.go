package checks

import (
	"context"
	"fmt"
	"math/rand"
	"reflect"
	"runtime"
	"sort"
	"strings"
	"sync"
	"time"

	"bwverif/bq"
	"bwverif/cv"
	"bwverif/gen"
	"bwverif/lin"
	"bwverif/ref"
	"bwverif/rt"

	"github.com/anishathalye/porcupine"
	"github.com/google/badwolf/bql/planner/filter"
	"github.com/google/badwolf/storage"
	"github.com/google/badwolf/storage/memoization"
	"github.com/google/badwolf/storage/memory"
	"github.com/google/badwolf/triple"
	"github.com/google/badwolf/triple/literal"
	"github.com/google/badwolf/triple/node"
	"github.com/google/badwolf/triple/predicate"
)

type c07Op struct {
	kind  int // lin.Op*
	batch []int
	q     int
}

type c07History struct {
	spec    *lin.GraphSpec
	clients [][]c07Op
	shared  []*storage.LookupOptions // distinct shared option values
}

func genGraphHistory(rng *rand.Rand) *c07History {
	univ := gen.Universe(rng, 6+rng.Intn(5))
	all := allQueries(univ)
	h := &c07History{spec: &lin.GraphSpec{Universe: univ}}
	sharedLatest := &storage.LookupOptions{LatestAnchor: true}
	t1, t3 := gen.T1, gen.T3
	sharedWindow := &storage.LookupOptions{LowerAnchor: &t1, UpperAnchor: &t3, MaxElements: 0}
	h.shared = []*storage.LookupOptions{sharedLatest, sharedWindow}
	nq := 5 + rng.Intn(4)
	for i := 0; i < nq; i++ {
		q := all[rng.Intn(len(all))]
		// bias towards arguments that exist
		if rng.Intn(2) == 0 {
			t := univ[rng.Intn(len(univ))]
			us, up, uo := ref.Uses(q.Method)
			if us {
				q.S = t.Subject()
			}
			if up {
				q.P = t.Predicate()
			}
			if uo {
				q.O = t.Object()
			}
		}
		lo := storage.DefaultLookup
		switch rng.Intn(4) {
		case 0:
			lo = sharedLatest
		case 1:
			lo = sharedWindow
		}
		h.spec.Queries = append(h.spec.Queries, q)
		h.spec.Options = append(h.spec.Options, lo)
	}
	h.spec.Queries = append(h.spec.Queries, ref.Query{Method: "Triples"})
	h.spec.Options = append(h.spec.Options, storage.DefaultLookup)
	nc := 6 + rng.Intn(5)
	for c := 0; c < nc; c++ {
		var ops []c07Op
		for k := 4 + rng.Intn(3); k > 0; k-- {
			switch x := rng.Intn(10); {
			case x < 3:
				var b []int
				for j := 1 + rng.Intn(5); j > 0; j-- {
					b = append(b, rng.Intn(len(univ)))
				}
				ops = append(ops, c07Op{kind: lin.OpAdd, batch: b})
			case x < 5:
				var b []int
				for j := 1 + rng.Intn(3); j > 0; j-- {
					b = append(b, rng.Intn(len(univ)))
				}
				ops = append(ops, c07Op{kind: lin.OpRem1, batch: b})
			case x < 6:
				ops = append(ops, c07Op{kind: lin.OpExist, batch: []int{rng.Intn(len(univ))}})
			default:
				ops = append(ops, c07Op{kind: lin.OpLookup, q: rng.Intn(len(h.spec.Queries))})
			}
		}
		h.clients = append(h.clients, ops)
	}
	return h
}

func maskOf(b []int) uint64 {
	var m uint64
	for _, i := range b {
		m |= 1 << uint(i)
	}
	return m
}

// runGraphHistory executes the history with real goroutines and returns the
// recorded operations.
func runGraphHistory(r *rt.Rec, h *c07History, respell bool) ([]porcupine.Operation, bool) {
	ctx := context.Background()
	st := memory.NewStore()
	g, _ := st.NewGraph(ctx, "?g")
	rec := lin.NewRecorder()
	snaps := make([]*storage.LookupOptions, len(h.shared))
	for i, s := range h.shared {
		snaps[i] = ref.CopyOptions(s)
	}
	var wg sync.WaitGroup
	start := make(chan struct{})
	var vmu sync.Mutex
	okAll := true
	fail := func(key, what string, w interface{}) {
		vmu.Lock()
		okAll = false
		r.Violation(key, what, w)
		vmu.Unlock()
	}
	for ci, ops := range h.clients {
		wg.Add(1)
		go func(ci int, ops []c07Op) {
			defer wg.Done()
			cl := rec.Client(ci)
			defer cl.Flush()
			<-start
			for _, op := range ops {
				op := op
				switch op.kind {
				case lin.OpAdd:
					ts := batchTriples(h.spec.Universe, op.batch)
					if respell {
						for i := range ts {
							ts[i] = gen.Respell(ts[i])
						}
					}
					cl.Do(func() ([]interface{}, []interface{}) {
						if err := g.AddTriples(ctx, ts); err != nil {
							fail("add-error", err.Error(), nil)
						}
						return []interface{}{lin.GIn{Kind: lin.OpAdd, Mask: maskOf(op.batch)}}, []interface{}{""}
					})
				case lin.OpRem1:
					ts := batchTriples(h.spec.Universe, op.batch)
					cl.Do(func() ([]interface{}, []interface{}) {
						if err := g.RemoveTriples(ctx, ts); err != nil {
							fail("remove-error", err.Error(), nil)
						}
						var ins, outs []interface{}
						for _, i := range op.batch {
							ins = append(ins, lin.GIn{Kind: lin.OpRem1, Mask: 1 << uint(i)})
							outs = append(outs, "")
						}
						return ins, outs
					})
				case lin.OpExist:
					t := h.spec.Universe[op.batch[0]]
					cl.Do(func() ([]interface{}, []interface{}) {
						ok, err := g.Exist(ctx, t)
						if err != nil {
							fail("exist-error", err.Error(), nil)
						}
						o := "f"
						if ok {
							o = "t"
						}
						return []interface{}{lin.GIn{Kind: lin.OpExist, Mask: 1 << uint(op.batch[0])}}, []interface{}{o}
					})
				default:
					q, lo := h.spec.Queries[op.q], h.spec.Options[op.q]
					cl.Do(func() ([]interface{}, []interface{}) {
						res, err, closed := ref.Call(ctx, g, q, lo)
						if err != nil {
							fail("lookup-error/"+q.Method, fmt.Sprintf("%s failed under concurrency: %v", q, err), nil)
						}
						if !closed {
							fail("channel-not-closed/"+q.Method, q.String()+" returned without closing its channel", nil)
						}
						sort.Strings(res)
						return []interface{}{lin.GIn{Kind: lin.OpLookup, Q: op.q}}, []interface{}{strings.Join(res, "\x1c")}
					})
				}
			}
		}(ci, ops)
	}
	close(start)
	wg.Wait()
	// options immutability: after all lookups returned the shared values are unchanged
	for i, s := range h.shared {
		if !reflect.DeepEqual(s, snaps[i]) {
			fail("options-modified-after-return", "a shared LookupOptions value differs from its snapshot after all lookups returned: "+ref.OptionsString(s), nil)
		}
	}
	return rec.Ops(), okAll
}

// optionsObserver: lookups sharing one LookupOptions value with LatestAnchor;
// the consumer reads the FilterOptions field right after receiving an element
// (the send happens-before the receive).
func c07OptionsProbe(r *rt.Rec, rng *rand.Rand) {
	ctx := context.Background()
	st := memory.NewStore()
	g, _ := st.NewGraph(ctx, "?g")
	var ts []*triple.Triple
	for i := 0; i < 12; i++ {
		ts = append(ts, gen.MustTriple(gen.VNodes[i%3], gen.MustTemp("p", gen.Times[i%3]), triple.NewNodeObject(gen.VNodes[(i/3)%6])))
	}
	g.AddTriples(ctx, ts)
	t0 := ts[0]
	// every lookup method, with arguments that yield at least one element
	for _, m := range ref.Methods {
		q := ref.Query{Method: m}
		us, up, uo := ref.Uses(m)
		if us {
			q.S = t0.Subject()
		}
		if up {
			q.P = t0.Predicate()
		}
		if uo {
			q.O = t0.Object()
		}
		for _, mk := range []func() *storage.LookupOptions{
			func() *storage.LookupOptions { return &storage.LookupOptions{LatestAnchor: true} },
			func() *storage.LookupOptions {
				return &storage.LookupOptions{FilterOptions: &filter.StorageOptions{Operation: filter.IsTemporal, Field: filter.PredicateField}, MaxElements: 5}
			},
			func() *storage.LookupOptions { t := gen.T1; return &storage.LookupOptions{LowerAnchor: &t} },
		} {
			shared := mk()
			snap := ref.CopyOptions(shared)
			changed := ""
			n := 0
			err := streamWith(ctx, g, q, shared, func() {
				n++
				// the send happens-before this receive: a write the lookup made
				// before sending is visible here
				if changed == "" && !reflect.DeepEqual(shared, snap) {
					changed = ref.OptionsString(shared)
				}
			})
			r.Eval(1)
			if err != nil {
				r.Violation("options-probe-error/"+m, err.Error(), nil)
			}
			if n == 0 {
				r.Inconclusive("options probe delivered no element for " + q.String())
			}
			if changed != "" {
				r.Violation("options-modified-during-lookup/"+m, "the lookup changed the caller's LookupOptions value while streaming results: "+ref.OptionsString(snap)+" became "+changed,
					map[string]string{"lookup": q.String()})
			}
			if !reflect.DeepEqual(shared, snap) {
				r.Violation("options-modified-after-return/"+m, "the caller's LookupOptions value differs from its snapshot after the lookup returned", map[string]string{"lookup": q.String()})
			}
			r.NontrivialDistinct(1)
		}
	}
}

// callSync runs a lookup in the calling goroutine on a channel large enough to
// take every element, so that the state of the channel after the call has
// returned is a fact, not a race: closed, still open (a receive would block),
// or the call panicked (a second close panics in the lookup itself).
func callSync(ctx context.Context, g storage.Graph, q ref.Query, lo *storage.LookupOptions) (n int, err error, state string) {
	const big = 4096
	state = "closed"
	defer func() {
		if p := recover(); p != nil {
			state = fmt.Sprintf("panic: %v", p)
		}
	}()
	drain := func(recv func() (ok, more bool)) {
		for {
			ok, more := recv()
			if !more {
				if !ok {
					state = "open"
				}
				return
			}
			n++
		}
	}
	switch q.Method {
	case "Objects":
		ch := make(chan *triple.Object, big)
		err = g.Objects(ctx, q.S, q.P, lo, ch)
		drain(func() (bool, bool) {
			select {
			case _, ok := <-ch:
				return true, ok
			default:
				return false, false
			}
		})
	case "Subjects":
		ch := make(chan *node.Node, big)
		err = g.Subjects(ctx, q.P, q.O, lo, ch)
		drain(func() (bool, bool) {
			select {
			case _, ok := <-ch:
				return true, ok
			default:
				return false, false
			}
		})
	case "PredicatesForSubject", "PredicatesForObject", "PredicatesForSubjectAndObject":
		ch := make(chan *predicate.Predicate, big)
		switch q.Method {
		case "PredicatesForSubject":
			err = g.PredicatesForSubject(ctx, q.S, lo, ch)
		case "PredicatesForObject":
			err = g.PredicatesForObject(ctx, q.O, lo, ch)
		default:
			err = g.PredicatesForSubjectAndObject(ctx, q.S, q.O, lo, ch)
		}
		drain(func() (bool, bool) {
			select {
			case _, ok := <-ch:
				return true, ok
			default:
				return false, false
			}
		})
	default:
		ch := make(chan *triple.Triple, big)
		switch q.Method {
		case "TriplesForSubject":
			err = g.TriplesForSubject(ctx, q.S, lo, ch)
		case "TriplesForPredicate":
			err = g.TriplesForPredicate(ctx, q.P, lo, ch)
		case "TriplesForObject":
			err = g.TriplesForObject(ctx, q.O, lo, ch)
		case "TriplesForSubjectAndPredicate":
			err = g.TriplesForSubjectAndPredicate(ctx, q.S, q.P, lo, ch)
		case "TriplesForPredicateAndObject":
			err = g.TriplesForPredicateAndObject(ctx, q.P, q.O, lo, ch)
		default:
			err = g.Triples(ctx, lo, ch)
		}
		drain(func() (bool, bool) {
			select {
			case _, ok := <-ch:
				return true, ok
			default:
				return false, false
			}
		})
	}
	return
}

// c07ErrorPaths: every lookup, called with option values the driver rejects (and
// with valid ones), must have closed its channel exactly once when it returns,
// and must leave the options value alone; observed after the call returned on a
// channel nobody else touches.
func c07ErrorPaths(r *rt.Rec, rng *rand.Rand, wrap func(storage.Store) storage.Store, label string) {
	ctx := context.Background()
	st := wrap(memory.NewStore())
	g, _ := st.NewGraph(ctx, "?g")
	var ts []*triple.Triple
	for i := 0; i < 18; i++ {
		p := gen.MustTemp("p", gen.Times[i%3])
		if i%5 == 0 {
			p = gen.MustImm("p")
		}
		var o *triple.Object
		if i%4 == 3 {
			o = triple.NewPredicateObject(gen.MustTemp("q", gen.Times[i%3]))
		} else {
			o = triple.NewNodeObject(gen.VNodes[(i/3)%6])
		}
		ts = append(ts, gen.MustTriple(gen.VNodes[i%3], p, o))
	}
	g.AddTriples(ctx, ts)
	var los []*storage.LookupOptions
	var mustErr []bool
	add := func(lo *storage.LookupOptions, e bool) { los = append(los, lo); mustErr = append(mustErr, e) }
	ops := []filter.Operation{filter.Latest, filter.IsImmutable, filter.IsTemporal}
	t1, t3 := gen.T1, gen.T3
	for _, op := range ops {
		for _, f := range []filter.Field{filter.PredicateField, filter.ObjectField} {
			add(&storage.LookupOptions{LatestAnchor: true, FilterOptions: &filter.StorageOptions{Operation: op, Field: f}}, true)
			add(&storage.LookupOptions{LatestAnchor: true, MaxElements: 1, LowerAnchor: &t1, FilterOptions: &filter.StorageOptions{Operation: op, Field: f}}, true)
			add(&storage.LookupOptions{FilterOptions: &filter.StorageOptions{Operation: op, Field: f}}, false)
		}
		add(&storage.LookupOptions{FilterOptions: &filter.StorageOptions{Operation: op, Field: filter.SubjectField}}, true)
		add(&storage.LookupOptions{MaxElements: 2, Offset: 1, UpperAnchor: &t3, FilterOptions: &filter.StorageOptions{Operation: op, Field: filter.SubjectField}}, true)
		add(&storage.LookupOptions{FilterOptions: &filter.StorageOptions{Operation: op, Field: filter.Field(0)}}, false)
		add(&storage.LookupOptions{FilterOptions: &filter.StorageOptions{Operation: op, Field: filter.Field(77)}}, false)
	}
	for _, op := range []filter.Operation{0, 77, -1} {
		add(&storage.LookupOptions{FilterOptions: &filter.StorageOptions{Operation: op, Field: filter.PredicateField}}, false)
		add(&storage.LookupOptions{LatestAnchor: true, FilterOptions: &filter.StorageOptions{Operation: op, Field: filter.ObjectField}}, true)
	}
	add(&storage.LookupOptions{LatestAnchor: true}, false)
	add(storage.DefaultLookup, false)
	add(&storage.LookupOptions{LowerAnchor: &t3, UpperAnchor: &t1, MaxElements: 1, Offset: 9}, false)
	add(&storage.LookupOptions{Offset: 2}, false) // a page offset without a page size
	add(&storage.LookupOptions{Offset: -1}, false)
	add(&storage.LookupOptions{MaxElements: 2, Offset: -3}, false)
	add(&storage.LookupOptions{MaxElements: -1}, false)
	add(&storage.LookupOptions{MaxElements: -2, Offset: 1, LatestAnchor: true}, false)
	add(&storage.LookupOptions{Offset: 1, LatestAnchor: true}, false)
	add(&storage.LookupOptions{MaxElements: 2, Offset: 1}, false)
	for _, m := range ref.Methods {
		for _, t0 := range []*triple.Triple{ts[0], ts[3], ts[7], gen.MustTriple(gen.AbsentNode, gen.MustImm("absent"), triple.NewNodeObject(gen.AbsentNode))} {
			q := ref.Query{Method: m}
			us, up, uo := ref.Uses(m)
			if us {
				q.S = t0.Subject()
			}
			if up {
				q.P = t0.Predicate()
			}
			if uo {
				q.O = t0.Object()
			}
			for i, lo := range los {
				arg := ref.CopyOptions(lo)
				snap := ref.CopyOptions(lo)
				r.Begin(fmt.Sprintf("error-paths(%s) %s [%s]", label, q, ref.OptionsString(lo)))
				n, err, state := callSync(ctx, g, q, arg)
				r.Eval(1)
				cls := "ok-return"
				if err != nil {
					cls = "error-return"
					r.Count("lookups_returning_error", 1)
				}
				w := map[string]interface{}{"store": label, "lookup": q.String(), "options": ref.OptionsString(lo), "elements": n, "error": fmt.Sprint(err), "channel": state}
				switch {
				case state == "open":
					r.Violation("channel-not-closed/"+cls+"/"+m, fmt.Sprintf("%s returned (err=%v) and left its result channel open", m, err), w)
				case state != "closed":
					r.Violation("channel-closed-twice-or-panic/"+cls+"/"+m, fmt.Sprintf("%s: %s", m, state), w)
				}
				if mustErr[i] && err == nil && state == "closed" {
					r.Violation("invalid-options-accepted/"+m, "LatestAnchor together with FilterOptions, or a filter on the subject field, did not give an error", w)
				}
				if !reflect.DeepEqual(arg, snap) {
					r.Violation("options-modified-after-return/"+m, "the caller's LookupOptions value differs from its snapshot after the lookup returned", w)
				}
				// a lookup that has returned holds nothing: a write right after it
				// must go through (a lock left behind on an error path blocks it;
				// the all-blocked watchdog then reports the deadlock)
				if i%4 == 0 || err != nil {
					r.Begin(fmt.Sprintf("error-paths(%s) write after %s [%s] (err=%v)", label, q, ref.OptionsString(lo), err))
					g.AddTriples(ctx, ts[:1])
				}
				if err != nil {
					r.NontrivialDistinct(1)
				}
			}
		}
	}
}

// c07BigBatch: a lookup never observes only part of one batch of added triples,
// whatever the size of the batch: while one goroutine adds n triples in one
// AddTriples call, others keep listing the graph; every listing must hold 0 or n
// of them.
func c07BigBatch(r *rt.Rec, rng *rand.Rand, rounds int) {
	ctx := context.Background()
	for round := 0; round < rounds; round++ {
		n := []int{1025, 2048, 3000, 5000}[round%4] + rng.Intn(3)
		st := memory.NewStore()
		g, _ := st.NewGraph(ctx, "?g")
		subj := gen.MustNode("/u", "bulk")
		ts := make([]*triple.Triple, n)
		for i := range ts {
			ts[i] = gen.MustTriple(subj, gen.MustImm(fmt.Sprintf("p%d", i%7)), triple.NewLiteralObject(gen.MustLit(literal.Int64, int64(i))))
		}
		r.Begin(fmt.Sprintf("one AddTriples call with %d triples under concurrent listings", n))
		var wg sync.WaitGroup
		var mu sync.Mutex
		partial := map[int]bool{}
		stop := make(chan struct{})
		for k := 0; k < 4; k++ {
			wg.Add(1)
			go func(k int) {
				defer wg.Done()
				for {
					select {
					case <-stop:
						return
					default:
					}
					cnt := 0
					if k%2 == 0 {
						ch := make(chan *triple.Triple, 64)
						go g.TriplesForSubject(ctx, subj, storage.DefaultLookup, ch)
						for range ch {
							cnt++
						}
					} else {
						ch := make(chan *triple.Triple, 64)
						go g.Triples(ctx, storage.DefaultLookup, ch)
						for range ch {
							cnt++
						}
					}
					if cnt != 0 && cnt != n {
						mu.Lock()
						partial[cnt] = true
						mu.Unlock()
					}
					if cnt == n {
						return
					}
				}
			}(k)
		}
		runtime.Gosched()
		g.AddTriples(ctx, ts)
		// readers stop by themselves once they have seen the whole batch
		done := make(chan struct{})
		go func() { wg.Wait(); close(done) }()
		<-done
		close(stop)
		r.Eval(1)
		if len(partial) > 0 {
			var seen []int
			for c := range partial {
				seen = append(seen, c)
			}
			sort.Ints(seen)
			if len(seen) > 6 {
				seen = seen[:6]
			}
			r.Violation("partial-batch-visible/big-batch", fmt.Sprintf("while one AddTriples call added %d triples, listings held %v of them", n, seen), map[string]interface{}{"batch": n, "partial_counts": seen})
		}
		r.Nontrivial(fmt.Sprintf("big-batch|%d|%d", round, n))
	}
}

// streamWith runs the lookup and calls onElem after every received element.
func streamWith(ctx context.Context, g storage.Graph, q ref.Query, lo *storage.LookupOptions, onElem func()) error {
	done := make(chan error, 1)
	switch q.Method {
	case "Objects":
		ch := make(chan *triple.Object)
		go func() { done <- g.Objects(ctx, q.S, q.P, lo, ch) }()
		for range ch {
			onElem()
		}
	case "Subjects":
		ch := make(chan *node.Node)
		go func() { done <- g.Subjects(ctx, q.P, q.O, lo, ch) }()
		for range ch {
			onElem()
		}
	case "PredicatesForSubject", "PredicatesForObject", "PredicatesForSubjectAndObject":
		ch := make(chan *predicate.Predicate)
		go func() {
			switch q.Method {
			case "PredicatesForSubject":
				done <- g.PredicatesForSubject(ctx, q.S, lo, ch)
			case "PredicatesForObject":
				done <- g.PredicatesForObject(ctx, q.O, lo, ch)
			default:
				done <- g.PredicatesForSubjectAndObject(ctx, q.S, q.O, lo, ch)
			}
		}()
		for range ch {
			onElem()
		}
	default:
		ch := make(chan *triple.Triple)
		go func() {
			switch q.Method {
			case "TriplesForSubject":
				done <- g.TriplesForSubject(ctx, q.S, lo, ch)
			case "TriplesForPredicate":
				done <- g.TriplesForPredicate(ctx, q.P, lo, ch)
			case "TriplesForObject":
				done <- g.TriplesForObject(ctx, q.O, lo, ch)
			case "TriplesForSubjectAndPredicate":
				done <- g.TriplesForSubjectAndPredicate(ctx, q.S, q.P, lo, ch)
			case "TriplesForPredicateAndObject":
				done <- g.TriplesForPredicateAndObject(ctx, q.P, q.O, lo, ch)
			default:
				done <- g.Triples(ctx, lo, ch)
			}
		}()
		for range ch {
			onElem()
		}
	}
	return <-done
}

func c07GraphHistories(r *rt.Rec, rng *rand.Rand, n int, yieldSleep bool) {
	for i := 0; i < n; i++ {
		h := genGraphHistory(rng)
		// yield hook between RemoveTriples' critical sections and inside AddTriples' loop
		memory.VerifYield = func(ctx context.Context, point string) {
			if yieldSleep && point == "remove:after-triple" {
				time.Sleep(time.Duration(20+rand.Intn(80)) * time.Microsecond)
				return
			}
			runtime.Gosched()
		}
		old := runtime.GOMAXPROCS([]int{2, 4, 16}[i%3])
		r.Begin(fmt.Sprintf("graph history %d: %d clients", i, len(h.clients)))
		ops, ok := runGraphHistory(r, h, i%4 == 3)
		runtime.GOMAXPROCS(old)
		memory.VerifYield = nil
		r.Eval(len(ops))
		if !ok {
			continue
		}
		model := lin.GraphModel(h.spec)
		res, _ := porcupine.CheckOperationsVerbose(model, ops, 30*time.Second)
		ov := lin.Overlaps(ops)
		r.Count("operations", len(ops))
		r.Count("overlapping_pairs", ov)
		switch res {
		case porcupine.Illegal:
			cls := "graph"
			r.Violation("not-linearizable/"+cls, "a recorded history of concurrent graph operations has no sequential explanation", map[string]interface{}{"universe": tripleStrings(h.spec.Universe), "history": lin.Describe(model, ops)})
		case porcupine.Unknown:
			r.Inconclusive("porcupine timed out on a graph history")
		default:
			if ov > 0 {
				var vec []string
				for _, o := range ops {
					vec = append(vec, fmt.Sprint(o.Output))
				}
				r.Distinct("result_vectors", strings.Join(vec, "|"))
				r.Nontrivial(fmt.Sprintf("%v|%d|%d", tripleStrings(h.spec.Universe), i, len(ops)) + strings.Join(vec, "|"))
			}
		}
		if i == 0 {
			r.Sample(map[string]interface{}{"clients": len(h.clients), "operations": len(ops), "overlapping_pairs": ov, "first_ops": lin.Describe(model, ops[:min(6, len(ops))])})
		}
	}
}

func c07StoreHistories(r *rt.Rec, rng *rand.Rand, n int) {
	ctx := context.Background()
	names := []string{"?a", "?b", "?c"}
	for i := 0; i < n; i++ {
		st := memory.NewStore()
		rec := lin.NewRecorder()
		var wg sync.WaitGroup
		start := make(chan struct{})
		nc := 4 + rng.Intn(5)
		plans := make([][]lin.SIn, nc)
		for c := range plans {
			for k := 4 + rng.Intn(4); k > 0; k-- {
				plans[c] = append(plans[c], lin.SIn{Kind: []int{lin.SNew, lin.SNew, lin.SGet, lin.SDrop, lin.SDrop, lin.SNames}[rng.Intn(6)], Name: rng.Intn(3)})
			}
		}
		for c := range plans {
			wg.Add(1)
			go func(c int) {
				defer wg.Done()
				cl := rec.Client(c)
				defer cl.Flush()
				<-start
				for _, in := range plans[c] {
					in := in
					cl.Do(func() ([]interface{}, []interface{}) {
						out := "ok"
						switch in.Kind {
						case lin.SNew:
							if _, err := st.NewGraph(ctx, names[in.Name]); err != nil {
								out = "err"
							}
						case lin.SGet:
							if _, err := st.Graph(ctx, names[in.Name]); err != nil {
								out = "err"
							}
						case lin.SDrop:
							if err := st.DeleteGraph(ctx, names[in.Name]); err != nil {
								out = "err"
							}
						default:
							ns, _ := storeNames(ctx, st)
							var s uint64
							for _, n := range ns {
								for bi, nm := range names {
									if n == nm {
										s |= 1 << uint(bi)
									}
								}
							}
							out = fmt.Sprintf("%b", s)
						}
						return []interface{}{in}, []interface{}{out}
					})
				}
			}(c)
		}
		close(start)
		wg.Wait()
		ops := rec.Ops()
		r.Eval(len(ops))
		model := lin.StoreModel()
		res, _ := porcupine.CheckOperationsVerbose(model, ops, 30*time.Second)
		r.Count("store_operations", len(ops))
		r.Count("overlapping_pairs", lin.Overlaps(ops))
		switch res {
		case porcupine.Illegal:
			r.Violation("not-linearizable/store", "a recorded history of concurrent NewGraph/Graph/DeleteGraph/GraphNames has no sequential explanation", map[string]interface{}{"history": lin.Describe(model, ops)})
		case porcupine.Unknown:
			r.Inconclusive("porcupine timed out on a store history")
		default:
			if lin.Overlaps(ops) > 0 {
				var vec []string
				for _, o := range ops {
					vec = append(vec, fmt.Sprint(o.Input, o.Output))
				}
				r.Nontrivial("store|" + strings.Join(vec, "|"))
			}
		}
	}
}

// c07BQL: concurrent statements through the planner on one store.
func c07BQL(r *rt.Rec, rng *rand.Rand, rounds int) {
	ctx := context.Background()
	for i := 0; i < rounds; i++ {
		data := gen.DenseDataSet(rng, 2, 12, true)
		st := bq.NewStore(ctx, data)
		all := gen.AllTriples(data)
		nc := 2 + rng.Intn(5)
		var texts [][]string
		for c := 0; c < nc; c++ {
			var ts []string
			for k := 0; k < 4; k++ {
				switch rng.Intn(4) {
				case 0:
					s := gen.DataStmt(rng, "insert", all)
					s.Graphs = gen.GraphVars[:1+rng.Intn(2)]
					ts = append(ts, s.Text())
				case 1:
					s := gen.DataStmt(rng, "delete", all)
					s.Graphs = gen.GraphVars[:1+rng.Intn(2)]
					ts = append(ts, s.Text())
				default:
					q := gen.SelectAll(gen.MatchingPattern(rng, all, 1+rng.Intn(2)), gen.GraphVars[:1+rng.Intn(2)])
					if len(q.Vars) > 0 {
						ts = append(ts, q.Text())
					}
				}
			}
			texts = append(texts, ts)
		}
		r.Begin(fmt.Sprintf("concurrent BQL round %d: %v", i, texts))
		before := rt.Snapshot()
		var wg sync.WaitGroup
		var vmu sync.Mutex
		for c := range texts {
			wg.Add(1)
			go func(c int) {
				defer wg.Done()
				for _, t := range texts[c] {
					tbl, _, err := bq.Run(ctx, st, t, 0, 2)
					if err == nil && tbl == nil {
						vmu.Lock()
						r.Violation("bql-no-table-no-error", "a concurrent statement returned neither table nor error", t)
						vmu.Unlock()
					}
					if err != nil {
						vmu.Lock()
						r.Violation("bql-concurrent-error/"+errClass(err), "a valid statement failed when run concurrently with others: "+err.Error(), map[string]interface{}{"statement": t, "all": texts})
						vmu.Unlock()
					}
				}
			}(c)
		}
		wg.Wait()
		r.Eval(nc * 4)
		if left := rt.Leaked(before, 2*time.Second); len(left) > 0 {
			r.Violation("goroutine-leak/"+rt.LeakClass(left[0]), "goroutines left after concurrent statements returned", trim(left[0].Stack, 1200))
		}
		r.Count("bql_statements", nc*4)
	}
}

// c07DrainExist: a consumer calls Exist while draining a lookup and a writer is
// waiting for the graph lock. Every call is legitimate on its own.
func c07DrainExist(r *rt.Rec) {
	ctx := context.Background()
	st := memory.NewStore()
	g, _ := st.NewGraph(ctx, "?g")
	var ts []*triple.Triple
	for i := 0; i < 6; i++ {
		ts = append(ts, gen.MustTriple(gen.VNodes[0], gen.MustImm("p"), triple.NewNodeObject(gen.VNodes[i])))
	}
	g.AddTriples(ctx, ts)
	extra := gen.MustTriple(gen.VNodes[1], gen.MustImm("q"), triple.NewNodeObject(gen.VNodes[2]))
	r.Begin("drain+Exist+writer: consumer calls Exist between receives of TriplesForSubject while AddTriples waits")
	finished := make(chan struct{})
	go func() {
		defer close(finished)
		ch := make(chan *triple.Triple)
		done := make(chan error, 1)
		go func() { done <- g.TriplesForSubject(ctx, gen.VNodes[0], storage.DefaultLookup, ch) }()
		first := true
		for t := range ch {
			if first {
				first = false
				// a writer arrives while the lookup is streaming
				go g.AddTriples(ctx, []*triple.Triple{extra})
				time.Sleep(20 * time.Millisecond)
			}
			g.Exist(ctx, t)
		}
		<-done
	}()
	select {
	case <-finished:
		r.Count("drain_exist_probe_completed", 1)
	case <-time.After(10 * time.Second):
		r.Violation("deadlock/lookup-holds-read-lock-while-sending", "a consumer that calls Exist while draining a lookup deadlocks as soon as a writer is waiting (the lookup holds the graph's read lock across channel sends)",
			map[string]string{"stacks": trim(rt.AllStacks(), 3000)})
	}
	r.Eval(1)
}

// c07DropWhileInUse: goroutines keep adding, removing, testing and looking up
// triples through a handle of a graph while another goroutine drops and
// re-creates that graph. What the old handle then refers to is not part of the
// property; that nothing panics, deadlocks or races is.
func c07DropWhileInUse(r *rt.Rec, rng *rand.Rand, rounds int, memoized bool) {
	ctx := context.Background()
	label := fmt.Sprintf("drop-while-in-use memoized=%v seed=%d", memoized, rng.Int63())
	r.Begin(label)
	var st storage.Store = memory.NewStore()
	if memoized {
		st = memoization.New(st)
	}
	h, _ := st.NewGraph(ctx, "?d")
	univ := gen.Universe(rng, 8)
	h.AddTriples(ctx, univ[:4])
	var mu sync.Mutex
	report := func(where string, e interface{}) {
		buf := make([]byte, 1<<14)
		stk := string(buf[:runtime.Stack(buf, false)])
		mu.Lock()
		defer mu.Unlock()
		r.Violation("panic/drop-while-in-use/"+where+"/"+rt.PanicClass(fmt.Sprint(e), stk), fmt.Sprintf("%s through a handle obtained before the graph was dropped panicked: %v", where, e), map[string]interface{}{"case": label, "stack": trim(stk, 2500)})
	}
	safely := func(where string, f func()) {
		defer func() {
			if e := recover(); e != nil {
				report(where, e)
			}
		}()
		f()
	}
	// first the plain sequence, then the concurrent one
	safely("DeleteGraph", func() { st.DeleteGraph(ctx, "?d") })
	use := func(g storage.Graph, k int) {
		safely("AddTriples", func() { g.AddTriples(ctx, univ[k%8:k%8+1]) })
		safely("Exist", func() { g.Exist(ctx, univ[(k+1)%8]) })
		safely("RemoveTriples", func() { g.RemoveTriples(ctx, univ[(k+3)%8:(k+3)%8+1]) })
		safely("Triples", func() {
			c := make(chan *triple.Triple, 4)
			go func() {
				for range c {
				}
			}()
			g.Triples(ctx, storage.DefaultLookup, c)
		})
		safely("Objects", func() {
			c := make(chan *triple.Object, 4)
			go func() {
				for range c {
				}
			}()
			g.Objects(ctx, univ[k%8].Subject(), univ[k%8].Predicate(), storage.DefaultLookup, c)
		})
	}
	use(h, 0)
	safely("NewGraph", func() { st.NewGraph(ctx, "?d") })
	use(h, 1)
	var wg sync.WaitGroup
	stop := make(chan struct{})
	for c := 0; c < 3; c++ {
		wg.Add(1)
		go func(c int) {
			defer wg.Done()
			g := h
			for k := 0; ; k++ {
				select {
				case <-stop:
					return
				default:
				}
				use(g, k+c)
				if k%5 == 4 {
					// pick up whatever the name refers to now
					safely("Graph", func() {
						if ng, err := st.Graph(ctx, "?d"); err == nil {
							g = ng
						}
					})
				}
			}
		}(c)
	}
	for k := 0; k < rounds; k++ {
		safely("DeleteGraph", func() { st.DeleteGraph(ctx, "?d") })
		runtime.Gosched()
		safely("NewGraph", func() { st.NewGraph(ctx, "?d") })
		runtime.Gosched()
	}
	close(stop)
	wg.Wait()
	r.Eval(rounds)
	r.Count("drops_while_in_use", rounds)
	r.Nontrivial(label)
}

func init() {
	register(&rt.Check{
		ID:    "C07",
		Level: "exploration",
		Rule: "many short histories: 6-10 client goroutines x 4-6 operations on one graph over a 6-10 triple universe (AddTriples batches of 1-5, RemoveTriples batches of 1-3, Exist, the ten lookups and Triples with default options or option values shared by all callers: LatestAnchor, a window), GOMAXPROCS 2/4/16, yield hook in RemoveTriples (Gosched or 20-100us sleep) and AddTriples; store histories of NewGraph/Graph/DeleteGraph/GraphNames over three names; 2-6 goroutines running INSERT/DELETE/SELECT through the planner on one store; a consumer calling Exist while draining a lookup with a writer waiting; clients using a handle (all operations) while the graph is dropped and re-created under them (memory store and memoizer, plain and -race: no panic, deadlock or race); " +
			"monitors: client-boundary invoke/response log checked by porcupine against a bitmask set model (RemoveTriples = k single removals sharing the interval, AddTriples atomic), race detector, channel observed closed, shared options compared with their snapshot (during streaming and after return), watchdog/all-blocked; non-trivial = linearizable history with >=1 overlapping pair of operations; distinct by operations + observed result vector",
		Assume: []string{"schedules are sampled (stress, GOMAXPROCS variation, yield hooks), not enumerated", "a porcupine timeout (30 s) is inconclusive"},
		Floor:  50,
		Phases: func(tier string, seed int64) []rt.Phase {
			gh, sh, bqlr, rg, bb := 320, 96, 48, 64, 3
			if tier == "thorough" {
				gh, sh, bqlr, rg, bb = 5000, 1500, 500, 1000, 40
			}
			return []rt.Phase{
				{Name: "options-probe", N: 1, Run: func(i int, r *rt.Rec) { c07OptionsProbe(r, gen.Rng(seed, "c07o", i)) }},
				{Name: "error-paths", N: 2, Run: func(i int, r *rt.Rec) {
					if i == 0 {
						c07ErrorPaths(r, gen.Rng(seed, "c07e", i), func(s storage.Store) storage.Store { return s }, "memory")
					} else {
						c07ErrorPaths(r, gen.Rng(seed, "c07e", i), func(s storage.Store) storage.Store { return memoization.New(s) }, "memoized")
					}
				}},
				{Name: "big-batch", N: 4, Procs: 16, Run: func(i int, r *rt.Rec) { c07BigBatch(r, gen.Rng(seed, "c07b", i), bb) }},
				{Name: "graph-histories", N: 16, Run: func(i int, r *rt.Rec) { c07GraphHistories(r, gen.Rng(seed, "c07g", i), gh/16, i%2 == 1) }},
				{Name: "store-histories", N: 16, Run: func(i int, r *rt.Rec) { c07StoreHistories(r, gen.Rng(seed, "c07s", i), sh/16) }},
				{Name: "graph-histories-race", N: 16, Race: true, Run: func(i int, r *rt.Rec) { c07GraphHistories(r, gen.Rng(seed, "c07gr", i), rg/16, i%2 == 1) }},
				{Name: "store-histories-race", N: 8, Race: true, Run: func(i int, r *rt.Rec) { c07StoreHistories(r, gen.Rng(seed, "c07sr", i), sh/32+1) }},
				{Name: "bql-race", N: 16, Race: true, Run: func(i int, r *rt.Rec) { c07BQL(r, gen.Rng(seed, "c07b", i), bqlr/16) }},
				{Name: "drop-while-in-use", N: 4, Run: func(i int, r *rt.Rec) { c07DropWhileInUse(r, gen.Rng(seed, "c07d", i), 200, i%2 == 1) }},
				{Name: "drop-while-in-use-race", N: 2, Race: true, Run: func(i int, r *rt.Rec) { c07DropWhileInUse(r, gen.Rng(seed, "c07dr", i), 100, i%2 == 1) }},
				{Name: "drain-exist", N: 1, Run: func(i int, r *rt.Rec) { c07DrainExist(r) }},
			}
		},
	})
}

var _ = cv.Null
