// Package checks holds one file per property (C01..C20).
package checks

import "bwverif/rt"

// Registry maps property ids to checks.
var Registry = map[string]*rt.Check{}

func register(c *rt.Check) { Registry[c.ID] = c }
