// Package checks holds one file per property (C01..C20).
package checks

import "bwverif/rt"

// Registry maps property ids to checks.
var Registry = map[string]*rt.Check{}

func register(c *rt.Check) { Registry[c.ID] = c }

// Aux holds functions that a case runs in a separate child process
// (bwcheck -aux <name> args...).
var Aux = map[string]func(args []string) int{}
