package checks

import (
	"context"
	"fmt"
	"math/rand"
	"strconv"
	"strings"

	"bwverif/bq"
	"bwverif/cv"
	"bwverif/gen"
	"bwverif/rt"

	"github.com/google/badwolf/bql/table"
	"github.com/google/badwolf/triple"
)

// cellCmp compares two cells of the same kind the way C12 states: int64 and
// float64 numerically, times chronologically, everything else by printed
// form. ok is false when the kinds differ (no requirement).
func cellCmp(a, b *table.Cell, lenient bool) (int, bool) {
	ka, kb := cellKind(a), cellKind(b)
	if ka != kb || ka == "null" {
		return 0, false
	}
	if lenient && cv.Cell(a) == cv.Cell(b) && a.String() != b.String() {
		// the same value printed differently (one instant in two zones): which
		// spelling a result shows may vary between executions, so nothing is
		// concluded from it when looking for wrongly excluded rows
		return 0, false
	}
	switch ka {
	case "int64":
		x, _ := a.L.Int64()
		y, _ := b.L.Int64()
		return cmp3(x < y, x > y), true
	case "float64":
		x, _ := a.L.Float64()
		y, _ := b.L.Float64()
		return cmp3(x < y, x > y), true
	case "time":
		return cmp3(a.T.Before(*b.T), a.T.After(*b.T)), true
	}
	x, y := a.String(), b.String()
	return cmp3(x < y, x > y), true
}

func cmp3(lt, gt bool) int {
	if lt {
		return -1
	}
	if gt {
		return 1
	}
	return 0
}

// rowCmp compares rows under the key list; decided is false when a key whose
// column mixes kinds is reached before the comparison is decided.
func rowCmp(a, b table.Row, keys []bq.Order, single map[string]bool, lenient bool) (int, bool) {
	for _, k := range keys {
		if !single[k.Binding] {
			return 0, false
		}
		c, ok := cellCmp(a[k.Binding], b[k.Binding], lenient)
		if !ok {
			return 0, false
		}
		if k.Dir == "DESC" {
			c = -c
		}
		if c != 0 {
			return c, true
		}
	}
	return 0, true
}

func dedupKeys(keys []bq.Order) []bq.Order {
	seen := map[string]bool{}
	var res []bq.Order
	for _, k := range keys {
		if !seen[k.Binding] {
			seen[k.Binding] = true
			res = append(res, k)
		}
	}
	return res
}

func runQ(ctx context.Context, r *rt.Rec, data bq.Data, text string) (*table.Table, error, bool) {
	var tbl *table.Table
	var err error
	r.Begin(text)
	st := bq.NewStore(ctx, data)
	if guard(r, "execute", text, func() { tbl, _, err = bq.Run(ctx, st, text, 0, 10) }) {
		return nil, nil, true
	}
	return tbl, err, false
}

func c12Run(r *rt.Rec, rng *rand.Rand, n int) {
	ctx := context.Background()
	var data bq.Data
	for i := 0; i < n; i++ {
		if i%20 == 0 {
			data = gen.DenseDataSet(rng, 1+rng.Intn(2), 10+rng.Intn(16), true)
		}
		all := gen.AllTriples(data)
		graphs := gen.GraphVars[:len(data)]
		cs := gen.MatchingPattern(rng, all, 1+rng.Intn(2))
		if rng.Intn(3) == 0 {
			// the plainest single clause: the limit is pushed into the driver
			cs = []bq.Clause{{S: bq.B("?s1"), P: bq.B("?p1"), O: bq.B("?o1")}}
			switch rng.Intn(7) {
			case 0:
				cs[0].O = bq.B("?s1") // repeated binding drops rows
			case 1:
				cs[0].PAt = "?pat1" // extraction drops rows
			case 2:
				cs[0].P = bq.PB("p", "?t1")
			case 3:
				cs[0].OAs = "?s1" // a binding repeated through an alias drops rows
			case 4:
				cs[0].SAs, cs[0].O = "?x1", bq.B("?x1")
			case 5:
				cs[0].OType = "?oty1" // extraction that only applies to node objects
			}
		}
		base := gen.SelectAll(cs, graphs)
		if len(base.Vars) == 0 {
			continue
		}
		gen.Reproject(rng, base)
		if rng.Intn(5) == 0 && len(base.Vars) >= 2 {
			// order by grouping keys and aggregate outputs
			k := base.Vars[0]
			if len(base.Vars) >= 3 && rng.Intn(2) == 0 {
				// two grouping keys, written in GROUP BY in another sequence than in SELECT
				k2 := base.Vars[1]
				base.Vars = []bq.Proj{k, k2, {Binding: base.Vars[2].Binding, Alias: "?cnt", Op: "count"}}
				base.GroupBy = []string{k2.Out(), k.Out()}
			} else {
				base.Vars = []bq.Proj{k, {Binding: base.Vars[1].Binding, Alias: "?cnt", Op: "count"}}
				base.GroupBy = []string{k.Out()}
			}
		}
		t0, err, pan := runQ(ctx, r, data, base.Text())
		if pan || err != nil || t0 == nil {
			r.Count("base_query_failed", 1)
			continue
		}
		if rng.Intn(4) == 0 && t0.NumRows() >= 3 && t0.NumRows() <= 1500 {
			// ORDER BY / LIMIT combined with HAVING: the filter must neither
			// disturb the order nor the choice of the first n rows
			hk := map[string]string{}
			ck := columnKinds(t0, base.OutBindings())
			for _, b := range base.OutBindings() {
				k := onlyKind(ck[b])
				if k == "str" {
					k = "text"
				}
				hk[b] = k
			}
			for tries := 0; tries < 4; tries++ {
				hq := *base
				hq.Having = gen.HavingExpr(rng, hk, 1+rng.Intn(2), false).Text()
				if th, herr, hpan := runQ(ctx, r, data, hq.Text()); !hpan && herr == nil && th != nil && th.NumRows() >= 2 && th.NumRows() < t0.NumRows() {
					base, t0 = &hq, th
					r.Count("queries_with_having", 1)
					break
				}
			}
		}
		N := t0.NumRows()
		if N > 1500 {
			continue
		}
		outs := base.OutBindings()
		kinds := columnKinds(t0, outs)
		single := map[string]bool{}
		for _, b := range outs {
			single[b] = len(kinds[b]) == 1
		}
		rows0 := bq.TableRows(t0, outs)
		w := func(stmt string) map[string]interface{} {
			return map[string]interface{}{"statement": stmt, "base_statement": base.Text(), "data": bq.DataStrings(data)}
		}
		// ---- ORDER BY
		q1 := *base
		nk := 1 + rng.Intn(3)
		for k := 0; k < nk; k++ {
			o := bq.Order{Binding: outs[rng.Intn(len(outs))], Dir: []string{"", "ASC", "DESC"}[rng.Intn(3)]}
			// a repeated key keeps its direction (anything else is rejected)
			for _, prev := range q1.OrderBy {
				if prev.Binding == o.Binding {
					o.Dir = prev.Dir
				}
			}
			q1.OrderBy = append(q1.OrderBy, o)
		}
		if len(base.GroupBy) > 0 && rng.Intn(2) == 0 {
			q1.OrderBy = nil
			for _, g := range base.GroupBy[:1+rng.Intn(len(base.GroupBy))] {
				q1.OrderBy = append(q1.OrderBy, bq.Order{Binding: g, Dir: []string{"", "ASC"}[rng.Intn(2)]})
			}
		}
		keys := dedupKeys(q1.OrderBy)
		class := "orderby"
		if len(keys) != len(q1.OrderBy) {
			class += "+repeated-key"
		}
		if len(cs) == 1 {
			class += "+single-clause"
		}
		r.Eval(1)
		t1, err, pan := runQ(ctx, r, data, q1.Text())
		if pan {
			continue
		}
		if err != nil || t1 == nil {
			ww := w(q1.Text())
			ww["error"] = fmt.Sprint(err)
			r.Violation("unexpected-error/"+class+"/"+errClass(err), "ORDER BY made the query fail: "+fmt.Sprint(err), ww)
			continue
		}
		rows1 := bq.TableRows(t1, outs)
		if a, b := cv.MultisetDiff(rows0, rows1); len(a) > 0 || len(b) > 0 {
			ww := w(q1.Text())
			ww["lost"], ww["new"] = showAll(a, 3), showAll(b, 3)
			r.Violation("orderby-changes-rows/"+class, fmt.Sprintf("ORDER BY changed the multiset of rows: %d lost, %d new", len(a), len(b)), ww)
			continue
		}
		sortedOK := true
		for k := 0; k+1 < len(t1.Rows()); k++ {
			c, decided := rowCmp(t1.Rows()[k], t1.Rows()[k+1], keys, single, false)
			if decided && c > 0 {
				ww := w(q1.Text())
				ww["row"], ww["next_row"] = cv.Show(cv.Row(t1.Rows()[k], outs)), cv.Show(cv.Row(t1.Rows()[k+1], outs))
				ww["position"] = k
				kk := ""
				for _, key := range keys {
					if cc, ok := cellCmp(t1.Rows()[k][key.Binding], t1.Rows()[k+1][key.Binding], false); ok && cc != 0 {
						kk = cellKind(t1.Rows()[k][key.Binding])
						break
					}
				}
				r.Violation("not-sorted/"+class+"/"+kk, "consecutive rows are out of order under the ORDER BY keys", ww)
				sortedOK = false
				break
			}
		}
		// non-trivial: >= 3 rows with >= 2 distinct values of the first key
		if sortedOK && N >= 3 && single[keys[0].Binding] {
			d := map[string]bool{}
			for _, row := range t1.Rows() {
				d[cv.Cell(row[keys[0].Binding])] = true
			}
			if len(d) >= 2 {
				r.Nontrivial(q1.Text())
			}
		}
		// ---- ORDER BY + LIMIT
		lim := rng.Intn(N + 3)
		q2 := q1
		q2.Limit = fmt.Sprintf(`"%d"^^type:int64`, lim)
		r.Eval(1)
		if t2, err, pan := runQ(ctx, r, data, q2.Text()); !pan {
			c12Limit(r, "orderby+limit"+strings.TrimPrefix(class, "orderby"), q2.Text(), w, t2, err, rows0, outs, lim, N, keys, single, t0)
		}
		// ---- LIMIT alone
		q3 := *base
		lim3 := rng.Intn(N + 3)
		q3.Limit = fmt.Sprintf(`"%d"^^type:int64`, lim3)
		r.Eval(1)
		if t3, err, pan := runQ(ctx, r, data, q3.Text()); !pan {
			cl := "limit"
			if len(cs) == 1 {
				cl += "+single-clause"
			}
			c12Limit(r, cl, q3.Text(), w, t3, err, rows0, outs, lim3, N, nil, single, t0)
		}
		// ---- a limit that is not a non-negative int64 is rejected
		if rng.Intn(3) == 0 {
			q4 := *base
			bad := []string{`"-1"^^type:int64`, `"-2"^^type:int64`, `"2.5"^^type:float64`, `"2"^^type:text`, `"true"^^type:bool`, `"-9223372036854775808"^^type:int64`}
			q4.Limit = bad[rng.Intn(len(bad))]
			r.Eval(1)
			if t4, err, pan := runQ(ctx, r, data, q4.Text()); !pan && err == nil {
				ww := w(q4.Text())
				if t4 != nil {
					ww["rows"] = t4.NumRows()
				}
				r.Violation("invalid-limit-accepted/"+strings.SplitN(q4.Limit, "^^", 2)[1], "a LIMIT that is not a non-negative int64 was not rejected", ww)
			}
			r.Count("invalid_limits", 1)
		}
		if i == 0 {
			r.Sample(map[string]interface{}{"statement": q2.Text(), "rows_without_limit": N})
		}
	}
}

func c12Limit(r *rt.Rec, class, text string, w func(string) map[string]interface{}, t *table.Table, err error, rows0, outs []string, lim, N int, keys []bq.Order, single map[string]bool, t0 *table.Table) {
	if err != nil || t == nil {
		ww := w(text)
		ww["error"] = fmt.Sprint(err)
		r.Violation("unexpected-error/"+class+"/"+errClass(err), "a valid LIMIT made the query fail: "+fmt.Sprint(err), ww)
		return
	}
	want := lim
	if N < want {
		want = N
	}
	rows := bq.TableRows(t, outs)
	if len(rows) != want {
		ww := w(text)
		ww["rows"], ww["expected_rows"], ww["rows_without_limit"] = len(rows), want, N
		mode := "too-few"
		if len(rows) > want {
			mode = "too-many"
		}
		r.Violation("limit-"+mode+"-rows/"+class, fmt.Sprintf("LIMIT %d returned %d rows, the query has %d rows without it", lim, len(rows), N), ww)
		return
	}
	// sub-multiset of the unlimited rows
	if _, extra := cv.MultisetDiff(rows0, rows); len(extra) > 0 {
		ww := w(text)
		ww["not_in_unlimited_result"] = showAll(extra, 3)
		r.Violation("limit-new-rows/"+class, "LIMIT returned rows the query does not return without it", ww)
		return
	}
	if keys == nil || len(rows) == 0 {
		if lim > 0 && lim < N {
			r.Count("limits_cutting", 1)
		}
		return
	}
	// sorted, and no excluded row strictly smaller than the last included one
	for k := 0; k+1 < len(t.Rows()); k++ {
		if c, decided := rowCmp(t.Rows()[k], t.Rows()[k+1], keys, single, false); decided && c > 0 {
			r.Violation("not-sorted/"+class, "rows under ORDER BY + LIMIT are out of order", w(text))
			return
		}
	}
	// when a key column holds one value under two spellings (the same instant
	// in two zones) the printed-form order of the rows depends on which
	// spelling each execution happens to show: the exclusion check is skipped
	spell := map[string]string{}
	for _, row := range t0.Rows() {
		for _, k := range keys {
			c := row[k.Binding]
			cc, pr := k.Binding+"|"+cv.Cell(c), c.String()
			if old, ok := spell[cc]; ok && old != pr {
				r.Count("skipped_ambiguous_spelling", 1)
				return
			}
			spell[cc] = pr
		}
	}
	last := t.Rows()[len(t.Rows())-1]
	// excluded = unlimited rows minus returned rows (as a multiset over canonical rows)
	cnt := map[string]int{}
	for _, x := range rows {
		cnt[x]++
	}
	for _, row := range t0.Rows() {
		k := cv.Row(row, outs)
		if cnt[k] > 0 {
			cnt[k]--
			continue
		}
		if c, decided := rowCmp(row, last, keys, single, true); decided && c < 0 {
			ww := w(text)
			ww["excluded_row"], ww["last_included_row"] = cv.Show(k), cv.Show(cv.Row(last, outs))
			r.Violation("limit-not-first-rows/"+class, "ORDER BY + LIMIT excludes a row that sorts strictly before an included one", ww)
			return
		}
	}
	if lim > 0 && lim < N {
		r.Count("limits_cutting", 1)
		r.Nontrivial(text)
	}
}

// c12EdgeWhitespaceProbe re-executes the pinned witness of the known finding
// str-edge-whitespace: ORDER BY on ID strings compares them after trimming
// surrounding whitespace (pinned by the existing test TestStringLess), so ids
// that differ by edge whitespace tie, and an id with a leading blank sorts by
// its trimmed form.
func c12EdgeWhitespaceProbe(r *rt.Rec) {
	ctx := context.Background()
	p := gen.MustImm("p")
	o := triple.NewNodeObject(gen.VNodes[1])
	data := bq.Data{"?g1": {
		gen.MustTriple(gen.MustNode("/u", "a"), p, o), gen.MustTriple(gen.MustNode("/u", "a "), p, o),
		gen.MustTriple(gen.MustNode("/u", " c"), p, o), gen.MustTriple(gen.MustNode("/u", "b"), p, o),
	}}
	for _, text := range []string{
		`SELECT ?s, ?id FROM ?g1 WHERE { ?s ID ?id "p"@[] ?o } ORDER BY ?id;`,
		`SELECT ?s, ?id FROM ?g1 WHERE { ?s ID ?id "p"@[] ?o } ORDER BY ?id DESC;`,
		`SELECT ?s, ?id FROM ?g1 WHERE { ?s ID ?id "p"@[] ?o } ORDER BY ?id LIMIT "1"^^type:int64;`,
	} {
		t, err, pan := runQ(ctx, r, data, text)
		r.Eval(1)
		if pan || err != nil || t == nil {
			r.Violation("str-edge-whitespace/unexpected-error", fmt.Sprintf("the probe query failed: %v", err), text)
			continue
		}
		var ids []string
		for _, row := range t.Rows() {
			if c := row["?id"]; c != nil && c.S != nil {
				ids = append(ids, *c.S)
			}
		}
		desc := strings.Contains(text, "DESC")
		for k := 0; k+1 < len(ids); k++ {
			if (!desc && ids[k] > ids[k+1]) || (desc && ids[k] < ids[k+1]) {
				r.Violation("str-edge-whitespace/not-sorted", fmt.Sprintf("ORDER BY on ID strings that differ in surrounding whitespace is not the order of their printed forms: %q", ids),
					map[string]interface{}{"statement": text, "data": bq.DataStrings(data), "ids_in_result_order": ids})
				break
			}
		}
		if strings.Contains(text, "LIMIT") && (len(ids) != 1 || ids[0] != " c") {
			r.Violation("str-edge-whitespace/limit-not-first-row", fmt.Sprintf("ORDER BY ?id LIMIT 1 returns %q, the smallest printed form is %q", ids, " c"),
				map[string]interface{}{"statement": text, "data": bq.DataStrings(data)})
		}
		r.NontrivialDistinct(1)
	}
}

func init() {
	register(&rt.Check{
		ID:    "C12",
		Level: "exploration",
		Rule: "dense data with negative and fractional numbers, anchors in two zones, text with shared prefixes x base queries (1-2 clause patterns guaranteed to match, plain single-clause queries whose limit is pushed into the driver, row-dropping clauses with a repeated binding or an AT / anchor extraction, GROUP BY with an aggregate output) x ORDER BY lists of 1-3 keys (ASC/DESC/default, repeated keys, aliases, aggregate outputs) x LIMIT 0..N+2 and invalid limits (-1, -2^63, float, text, bool); " +
			"oracle, metamorphic against the same query without ORDER BY / LIMIT: same multiset of rows; consecutive rows ordered per key (numeric / chronological / printed form) for keys whose column is of one kind; ORDER BY + LIMIT n: exactly min(n,N) rows, sorted, a sub-multiset, no excluded row strictly before an included one; LIMIT alone: any min(n,N) of the rows; invalid limit => error; non-trivial = >=3 rows with >=2 distinct first-key values, or 0<n<N; distinct by statement text",
		Assume: []string{"columns that mix kinds of values carry no ordering requirement", "ties make the LIMIT prefix non-unique"},
		Floor:  200,
		Phases: func(tier string, seed int64) []rt.Phase {
			n := 2560
			if tier == "thorough" {
				n = 40000
			}
			return []rt.Phase{
				{Name: "edge-whitespace-probe", N: 1, Run: func(i int, r *rt.Rec) { c12EdgeWhitespaceProbe(r) }},
				{Name: "order-limit", N: 32, Run: func(i int, r *rt.Rec) { c12Run(r, gen.Rng(seed, "c12", i), n/32) }},
			}
		},
	})
}

var _ = strconv.Itoa
