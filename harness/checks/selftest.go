package checks

import (
	"os"
	"time"

	"bwverif/rt"

	"github.com/google/badwolf/bql/lexer"
)

// SELFTEST is not a property: it makes the harness's own monitors fire on
// deliberately bad cases, so that tools/selftest.sh can confirm that a panic
// in another goroutine, an exit, a deadlock, a hang, a leak and a data race
// are each detected and attributed to the right case.
func init() {
	register(&rt.Check{
		ID:    "SELFTEST",
		Level: "exploration",
		Rule:  "self-test of the monitors",
		Floor: 0,
		Phases: func(tier string, seed int64) []rt.Phase {
			return []rt.Phase{
				{Name: "faults", N: 8, Workers: 4, SoftSec: 1, HardSec: 4, Run: func(i int, r *rt.Rec) {
					r.Eval(1)
					r.NontrivialDistinct(1)
					switch i {
					case 0:
						r.Begin("panic in the calling goroutine")
						var m map[string]int
						m["x"] = 1
					case 1:
						r.Begin("panic in another goroutine")
						go func() { panic("boom in a goroutine") }()
						time.Sleep(time.Second)
					case 2:
						r.Begin("process exit")
						os.Exit(7)
					case 3:
						r.Begin("deadlock: everything blocked")
						ch := make(chan int)
						go func() { ch <- 1; ch <- 2 }()
						<-ch
						select {}
					case 4:
						r.Begin("hang: busy loop")
						for x := 0; ; x++ {
							if x < 0 {
								break
							}
						}
					case 5:
						r.Begin("leak: lexer never drained")
						before := rt.Snapshot()
						_ = lexer.New("select ?a from ?b where { ?a ?b ?c } ;", 0)
						if left := rt.Leaked(before, time.Second); len(left) > 0 {
							r.Violation("selftest-leak/"+rt.LeakClass(left[0]), "leak monitor fired", nil)
						}
					default:
						r.Begin("fine")
					}
				}},
				{Name: "race", N: 1, Race: true, Run: func(i int, r *rt.Rec) {
					r.Eval(1)
					x := 0
					done := make(chan struct{})
					go func() { x++; close(done) }()
					x++
					<-done
					_ = x
				}},
			}
		},
	})
}
