package checks

import (
	"context"
	"fmt"
	"math/rand"
	"reflect"
	"sort"
	"strings"
	"time"

	"bwverif/cv"
	"bwverif/gen"
	"bwverif/ref"
	"bwverif/rt"

	"github.com/google/badwolf/bql/planner/filter"
	"github.com/google/badwolf/storage"
	"github.com/google/badwolf/storage/memory"
	"github.com/google/badwolf/triple"
	"github.com/google/badwolf/triple/node"
	"github.com/google/badwolf/triple/predicate"
)

// c09Graph builds a graph rich in temporal triples: ties for the latest
// anchor, anchors equal to the window bounds, ids that are immutable and
// temporal, predicate-valued (reified) objects.
func c09Graph(rng *rand.Rand) []*triple.Triple {
	ns := []*node.Node{gen.VNodes[0], gen.VNodes[1], gen.VNodes[4]}
	ids := []string{"p", "q"}
	times := []time.Time{gen.T1, gen.T2, gen.T3, gen.T2Z}
	if rng.Intn(3) == 0 {
		times = append(times, gen.TFarFuture, gen.TFarPast)
	}
	var objs []*triple.Object
	objs = append(objs, triple.NewNodeObject(ns[0]), triple.NewNodeObject(ns[1]), triple.NewLiteralObject(gen.VLits[3]), triple.NewLiteralObject(gen.VLits[8]))
	for _, id := range ids {
		objs = append(objs, triple.NewPredicateObject(gen.MustImm(id)))
		for _, t := range times[:3] {
			objs = append(objs, triple.NewPredicateObject(gen.MustTemp(id, t)))
		}
	}
	seen := map[string]bool{}
	var res []*triple.Triple
	n := 6 + rng.Intn(20)
	for tries := 0; len(res) < n && tries < 500; tries++ {
		id := ids[rng.Intn(len(ids))]
		var p *predicate.Predicate
		if rng.Intn(4) == 0 {
			p = gen.MustImm(id)
		} else {
			p = gen.MustTemp(id, times[rng.Intn(len(times))])
		}
		t := gen.MustTriple(ns[rng.Intn(len(ns))], p, objs[rng.Intn(len(objs))])
		if k := cv.Triple(t); !seen[k] {
			seen[k] = true
			res = append(res, t)
		}
	}
	return res
}

type optCombo struct {
	lower, upper *time.Time
	fo           *filter.StorageOptions
	latest       bool
}

func c09Combos() []optCombo {
	ts := []*time.Time{nil, &gen.T1, &gen.T2, &gen.T3}
	t2z := gen.T2Z
	ts = append(ts, &t2z)
	fos := []*filter.StorageOptions{nil}
	for _, op := range []filter.Operation{filter.Latest, filter.IsImmutable, filter.IsTemporal} {
		for _, f := range []filter.Field{filter.PredicateField, filter.ObjectField, filter.SubjectField} {
			fos = append(fos, &filter.StorageOptions{Operation: op, Field: f})
		}
	}
	var res []optCombo
	for _, lo := range ts {
		for _, up := range ts {
			for _, fo := range fos {
				for _, la := range []bool{false, true} {
					res = append(res, optCombo{lo, up, fo, la})
				}
			}
		}
	}
	return res
}

func (c optCombo) options(n, k int) *storage.LookupOptions {
	lo := &storage.LookupOptions{MaxElements: n, Offset: k, LatestAnchor: c.latest}
	if c.lower != nil {
		t := *c.lower
		lo.LowerAnchor = &t
	}
	if c.upper != nil {
		t := *c.upper
		lo.UpperAnchor = &t
	}
	if c.fo != nil {
		f := *c.fo
		lo.FilterOptions = &f
	}
	return lo
}

func (c optCombo) class() string {
	var parts []string
	if c.lower != nil || c.upper != nil {
		w := "window"
		if c.lower != nil && c.upper != nil && c.lower.After(*c.upper) {
			w = "window-inverted"
		}
		parts = append(parts, w)
	}
	if c.fo != nil {
		parts = append(parts, fmt.Sprintf("%v@%v", c.fo.Operation, strings.Fields(c.fo.Field.String())[0]))
	}
	if c.latest {
		parts = append(parts, "LatestAnchor")
	}
	if len(parts) == 0 {
		return "default"
	}
	return strings.Join(parts, "+")
}

func c09Queries(rng *rand.Rand, state []*triple.Triple) []ref.Query {
	ss, ps, os := lookupArgs(state)
	var qs []ref.Query
	for _, m := range ref.Methods {
		us, up, uo := ref.Uses(m)
		for rep := 0; rep < 2; rep++ {
			q := ref.Query{Method: m}
			// draw arguments from a stored triple most of the time so that results are non-empty
			base := state[rng.Intn(len(state))]
			if us {
				q.S = base.Subject()
				if rng.Intn(5) == 0 {
					q.S = ss[rng.Intn(len(ss))]
				}
			}
			if up {
				q.P = base.Predicate()
				if rng.Intn(3) == 0 {
					q.P = ps[rng.Intn(len(ps))]
				}
				// another spelling of the same instant
				if ta, err := q.P.TimeAnchor(); err == nil && ta.Equal(gen.T2) && rng.Intn(2) == 0 {
					q.P = gen.MustTemp(string(q.P.ID()), gen.T2Z)
				}
			}
			if uo {
				q.O = base.Object()
				if rng.Intn(5) == 0 {
					q.O = os[rng.Intn(len(os))]
				}
			}
			qs = append(qs, q)
			if m == "Triples" {
				break
			}
		}
	}
	return qs
}

func c09Run(r *rt.Rec, rng *rand.Rand, graphs int, sample int) {
	ctx := context.Background()
	combos := c09Combos()
	pages := [][2]int{{1, 0}, {1, 1}, {1, 2}, {1, 5}, {2, 0}, {2, 1}, {2, 2}, {2, 5}, {3, 0}, {3, 1}, {3, 2}, {3, 5}, {0, 1}, {0, 5}}
	for gi := 0; gi < graphs; gi++ {
		state := c09Graph(rng)
		st := memory.NewStore()
		g, _ := st.NewGraph(ctx, "?g")
		// add in two batches, the second respelling T2
		g.AddTriples(ctx, state)
		qs := c09Queries(rng, state)
		calls := 0
		for _, q := range qs {
			for ci, c := range combos {
				if sample > 0 && rng.Intn(len(combos)) >= sample {
					continue
				}
				_ = ci
				lo := c.options(0, 0)
				snap := ref.CopyOptions(lo)
				desc := fmt.Sprintf("%s with %s", q, ref.OptionsString(lo))
				r.Note(desc)
				got, err, closed := ref.Call(ctx, g, q, lo)
				calls++
				w := func() map[string]interface{} {
					return map[string]interface{}{"graph": tripleStrings(state), "query": q.String(), "options": ref.OptionsString(snap)}
				}
				if !closed {
					r.Violation("channel-open/"+q.Method, desc+": channel not closed", w())
				}
				if !reflect.DeepEqual(lo, snap) {
					r.Violation("options-modified/"+c.class(), desc+": the lookup options value was modified", w())
				}
				want, wantErr := ref.Lookup(state, q, snap)
				if wantErr {
					if err == nil {
						r.Violation("no-error/"+c.class(), desc+": invalid options (LatestAnchor with a filter, or a filter on the subject field) did not produce an error", w())
					}
					r.Count("error_cases", 1)
					continue
				}
				if err != nil {
					r.Violation("unexpected-error/"+c.class(), desc+": "+err.Error(), w())
					continue
				}
				seq := append([]string{}, got...)
				sort.Strings(got)
				a, b := cv.MultisetDiff(want, got)
				if len(a) > 0 || len(b) > 0 {
					mode := "missing"
					if len(a) == 0 {
						mode = "extra"
					}
					ww := w()
					ww["missing"], ww["extra"] = showAll(a, 4), showAll(b, 4)
					zone := ""
					if q.P != nil {
						if ta, err := q.P.TimeAnchor(); err == nil {
							if _, off := ta.Zone(); off != 0 {
								zone = "/query-anchor-non-utc"
							}
						}
					}
					r.Violation("select-"+mode+"/"+c.class()+zone, fmt.Sprintf("%s: %d missing, %d extra relative to window+filter definition", desc, len(a), len(b)), ww)
					continue
				}
				// determinism of the unpaged order
				again, _, _ := ref.Call(ctx, g, q, c.options(0, 0))
				if strings.Join(again, "\x00") != strings.Join(seq, "\x00") {
					r.Violation("order-unstable/"+q.Method, desc+": two calls delivered different sequences", w())
					continue
				}
				dflt, _ := ref.Lookup(state, q, storage.DefaultLookup)
				if len(got) > 0 && strings.Join(dflt, "\x00") != strings.Join(got, "\x00") {
					r.Nontrivial(fmt.Sprintf("%v|%s|%s", cv.Dedup(canonSet(state)), q, ref.OptionsString(snap)))
				}
				// paging: page (n,k) is the k-th block of the unpaged sequence
				for _, pg := range pages {
					if sample > 0 && rng.Intn(4) != 0 {
						continue
					}
					n, k := pg[0], pg[1]
					plo := c.options(n, k)
					pgot, perr, _ := ref.Call(ctx, g, q, plo)
					calls++
					if perr != nil {
						r.Violation("unexpected-error/paging", fmt.Sprintf("%s n=%d k=%d: %v", desc, n, k, perr), w())
						continue
					}
					var pwant []string
					if n == 0 {
						pwant = seq
					} else if k*n < len(seq) {
						pwant = seq[k*n : min((k+1)*n, len(seq))]
					}
					if strings.Join(pgot, "\x00") != strings.Join(pwant, "\x00") {
						ww := w()
						ww["page"], ww["unpaged"], ww["got"] = fmt.Sprintf("n=%d k=%d", n, k), showAll(seq, 8), showAll(pgot, 8)
						r.Violation(fmt.Sprintf("page-mismatch/n%s-k%s", sizeWord(n), sizeWord(k)), fmt.Sprintf("%s: page n=%d k=%d is not block %d of the unpaged result (%d elements)", desc, n, k, k, len(seq)), ww)
					}
					if n > 0 && len(seq) > n {
						r.Count("paged_nontrivial", 1)
					}
				}
				// direct partition law for one page size
				if len(seq) > 1 && (sample == 0 || rng.Intn(8) == 0) {
					n := 1 + rng.Intn(3)
					var cat []string
					for k := 0; k*n < len(seq)+n; k++ {
						pgot, _, _ := ref.Call(ctx, g, q, c.options(n, k))
						calls++
						cat = append(cat, pgot...)
					}
					if strings.Join(cat, "\x00") != strings.Join(seq, "\x00") {
						r.Violation("partition-law", fmt.Sprintf("%s: concatenating the pages of size %d does not give the unpaged result", desc, n), w())
					}
					r.Count("partition_checks", 1)
				}
			}
		}
		r.Eval(calls)
		r.Count("lookup_calls", calls)
		if gi == 0 {
			r.Sample(map[string]interface{}{"graph": tripleStrings(state)[:min(4, len(state))], "graph_size": len(state), "queries": len(qs), "option_combinations": len(combos), "example": qs[0].String() + " with " + ref.OptionsString(combos[77].options(2, 1))})
		}
	}
}

func sizeWord(n int) string {
	switch {
	case n == 0:
		return "0"
	case n == 1:
		return "1"
	}
	return "many"
}

func init() {
	register(&rt.Check{
		ID:    "C09",
		Level: "exploration",
		Rule: "random graphs rich in temporal triples (ties for latest, anchors equal to window bounds, ids both immutable and temporal, predicate-valued objects, T2 spelled in two zones) x all ten lookups + Triples x arguments x options grid: window lower/upper in {nil,T1,T2,T3,T2(+01:00)} incl. lower>upper; filter in {none, latest, isImmutable, isTemporal} x field {predicate, object, subject(error)}; LatestAnchor alone and with a filter (error); MaxElements {0,1,2,3} x Offset {0,1,2,5}; " +
			"oracle: Appendix B pipeline on the known graph content for the unpaged result (multiset), page (n,k) == k-th block of the real unpaged sequence, concatenation of pages == unpaged, options value unchanged after return, channel closed also on error; non-trivial = options change the result relative to default options and the result is non-empty; distinct by (graph, method, args, options)",
		Assume: []string{"the graph content is known because the harness loaded it (C01/C02 tie the store to the model)", "latest = per predicate identifier the greatest anchor among what the window left, ties kept"},
		Floor:  300,
		Phases: func(tier string, seed int64) []rt.Phase {
			graphs, sample := 96, 80
			if tier == "thorough" {
				graphs, sample = 208, 0
			}
			return []rt.Phase{
				{Name: "options", N: 16, Run: func(i int, r *rt.Rec) { c09Run(r, gen.Rng(seed, "c09", i), graphs/16, sample) }},
			}
		},
	})
}
