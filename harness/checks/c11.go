package checks

import (
	"context"
	"fmt"
	"math"
	"math/rand"
	"sort"
	"strconv"
	"strings"

	"bwverif/bq"
	"bwverif/cv"
	"bwverif/gen"
	"bwverif/rt"

	"github.com/google/badwolf/bql/table"
	"github.com/google/badwolf/triple"
)

// plainResult runs SELECT <all bindings> for the pattern and returns the rows
// as maps binding -> cell.
func plainResult(ctx context.Context, data bq.Data, q *bq.Query) (*table.Table, error) {
	st := bq.NewStore(ctx, data)
	tbl, _, err := bq.Run(ctx, st, q.Text(), 0, 10)
	return tbl, err
}

func cellKind(c *table.Cell) string {
	switch {
	case c == nil:
		return "null"
	case c.S != nil:
		return "str"
	case c.N != nil:
		return "node"
	case c.P != nil:
		return "pred"
	case c.T != nil:
		return "time"
	case c.L != nil:
		return c.L.Type().String()
	}
	return "null"
}

// columnKinds returns, per binding, the set of cell kinds in the table.
func columnKinds(t *table.Table, bs []string) map[string]map[string]bool {
	res := map[string]map[string]bool{}
	for _, b := range bs {
		res[b] = map[string]bool{}
	}
	for _, r := range t.Rows() {
		for _, b := range bs {
			res[b][cellKind(r[b])] = true
		}
	}
	return res
}

func onlyKind(m map[string]bool) string {
	if len(m) != 1 {
		return "mixed"
	}
	for k := range m {
		return k
	}
	return "mixed"
}

func floatsClose(a, b float64, n int) bool {
	if a == b {
		return true
	}
	tol := float64(n+1) * 1e-12 * math.Max(1, math.Max(math.Abs(a), math.Abs(b)))
	return math.Abs(a-b) <= tol
}

func c11Run(r *rt.Rec, rng *rand.Rand, n int) {
	ctx := context.Background()
	friendly := gen.FriendlyShapes()
	var data bq.Data
	for i := 0; i < n; i++ {
		if i%20 == 0 {
			data = gen.DenseDataSet(rng, 1+rng.Intn(2), 12+rng.Intn(16), true)
			if rng.Intn(3) == 0 {
				// ids that differ by a trailing blank only are different group keys
				data = gen.WithEdgeWhitespaceNode(rng, data)
			}
		}
		all := gen.AllTriples(data)
		graphs := gen.GraphVars[:len(data)]
		var cs []bq.Clause
		if rng.Intn(4) == 0 {
			cs = gen.RandomPattern(rng, friendly, all, 1+rng.Intn(2))
		} else {
			cs = gen.MatchingPattern(rng, all, 1+rng.Intn(2))
		}
		if rng.Intn(15) == 0 {
			// a pattern without solutions
			cs[0].S = bq.N(gen.AbsentNode)
		}
		plain := gen.SelectAll(cs, graphs)
		if len(plain.Vars) < 2 {
			continue
		}
		r.Begin(plain.Text())
		pt, err := plainResult(ctx, data, plain)
		if err != nil || pt == nil {
			r.Count("plain_query_failed", 1)
			continue
		}
		if pt.NumRows() > 1500 {
			continue
		}
		bs := plain.OutBindings()
		kinds := columnKinds(pt, bs)
		// choose grouping bindings and aggregates
		perm := rng.Perm(len(bs))
		ng := 1 + rng.Intn(2)
		if ng >= len(bs) {
			ng = len(bs) - 1
		}
		q := &bq.Query{Graphs: graphs, Clauses: cs}
		type agg struct {
			op, in, out string
		}
		var groupIn, groupOut []string
		var aggs []agg
		for k, pi := range perm {
			b := bs[pi]
			if k < ng {
				p := bq.Proj{Binding: b}
				switch rng.Intn(5) {
				case 0:
					p.Alias = "?k" + strconv.Itoa(k)
				case 1:
					// an alias named like a pattern binding that is only aggregated
					if k == 0 && ng < len(perm) {
						p.Alias = bs[perm[ng]]
					}
				}
				q.Vars = append(q.Vars, p)
				groupIn = append(groupIn, b)
				groupOut = append(groupOut, p.Out())
				continue
			}
			if len(aggs) >= 3 {
				break
			}
			op := []string{"count", "countd"}[rng.Intn(2)]
			if k := onlyKind(kinds[b]); (k == "int64" || k == "float64") && rng.Intn(2) == 0 {
				op = "sum"
			}
			a := agg{op, b, fmt.Sprintf("?a%d", len(aggs))}
			aggs = append(aggs, a)
			q.Vars = append(q.Vars, bq.Proj{Binding: b, Alias: a.out, Op: op})
		}
		if len(aggs) == 0 {
			continue
		}
		// the same binding aggregated twice
		if sel := rng.Intn(6); sel < 2 {
			a := aggs[0]
			op2 := "count"
			if a.op == "count" {
				op2 = "countd"
			}
			if sel == 1 {
				// the very same aggregate under a second alias
				op2 = a.op
			}
			a2 := agg{op2, a.in, "?a9"}
			aggs = append(aggs, a2)
			q.Vars = append(q.Vars, bq.Proj{Binding: a.in, Alias: a2.out, Op: op2})
		}
		rng.Shuffle(len(q.Vars), func(x, y int) { q.Vars[x], q.Vars[y] = q.Vars[y], q.Vars[x] })
		q.GroupBy = append([]string{}, groupOut...)
		if rng.Intn(2) == 0 {
			rng.Shuffle(len(q.GroupBy), func(x, y int) { q.GroupBy[x], q.GroupBy[y] = q.GroupBy[y], q.GroupBy[x] })
		}
		text := q.Text()
		r.Begin(text)
		r.Eval(1)
		// --- reference grouping of the engine's own plain rows
		type grp struct {
			key  []string
			rows []table.Row
		}
		groups := map[string]*grp{}
		var order []string
		for _, row := range pt.Rows() {
			var key []string
			for _, b := range groupIn {
				key = append(key, cv.Cell(row[b]))
			}
			k := strings.Join(key, "\x1e")
			g, ok := groups[k]
			if !ok {
				g = &grp{key: key}
				groups[k] = g
				order = append(order, k)
			}
			g.rows = append(g.rows, row)
		}
		class := "groupby"
		mixed := false
		for _, b := range groupIn {
			if onlyKind(kinds[b]) == "mixed" {
				mixed = true
			}
		}
		if mixed {
			class += "+mixed-kind-key"
		}
		for k, b := range groupIn {
			if groupOut[k] != b {
				class += "+alias-key"
				break
			}
		}
		w := func() map[string]interface{} {
			return map[string]interface{}{"statement": text, "plain_statement": plain.Text(), "data": bq.DataStrings(data)}
		}
		st := bq.NewStore(ctx, data)
		tbl, stage, err := bq.Run(ctx, st, text, 0, 10)
		if err != nil {
			ww := w()
			ww["error"] = err.Error()
			r.Violation("unexpected-error/"+class+"/"+errClass(err), fmt.Sprintf("aggregate query failed at stage %d: %v", stage, err), ww)
			continue
		}
		if tbl == nil {
			r.Violation("nil-table/"+class, "Execute returned (nil, nil)", w())
			continue
		}
		if len(groups) == 0 {
			if tbl.NumRows() != 0 {
				r.Violation("rows-for-empty-pattern/"+class, fmt.Sprintf("the pattern has no solutions but the grouped result has %d rows", tbl.NumRows()), w())
			}
			r.Count("empty_patterns", 1)
			continue
		}
		// index result rows by group key
		got := map[string][]table.Row{}
		for _, row := range tbl.Rows() {
			var key []string
			for _, b := range groupOut {
				key = append(key, cv.Cell(row[b]))
			}
			k := strings.Join(key, "\x1e")
			got[k] = append(got[k], row)
		}
		bad := false
		for k, rows := range got {
			if _, ok := groups[k]; !ok {
				ww := w()
				ww["group"] = cv.Show(k)
				r.Violation("phantom-group/"+class, "the result has a row for a combination of grouping values that no solution has", ww)
				bad = true
				break
			}
			if len(rows) > 1 {
				ww := w()
				ww["group"], ww["rows"] = cv.Show(k), len(rows)
				r.Violation("group-split/"+class, fmt.Sprintf("%d result rows for one combination of grouping values", len(rows)), ww)
				bad = true
				break
			}
		}
		if bad {
			continue
		}
		for _, k := range order {
			g := groups[k]
			rows := got[k]
			if len(rows) == 0 {
				ww := w()
				ww["group"] = cv.Show(k)
				r.Violation("group-missing/"+class, "a combination of grouping values of the solutions has no result row", ww)
				bad = true
				break
			}
			row := rows[0]
			for _, a := range aggs {
				c := row[a.out]
				gotV := cv.Cell(c)
				var want string
				okv := true
				switch a.op {
				case "count":
					want = "L|int64|" + strconv.Itoa(len(g.rows))
				case "countd":
					d := map[string]bool{}
					for _, rr := range g.rows {
						d[cv.Cell(rr[a.in])] = true
					}
					want = "L|int64|" + strconv.Itoa(len(d))
				case "sum":
					if onlyKind(kinds[a.in]) == "int64" {
						var s int64
						for _, rr := range g.rows {
							v, _ := rr[a.in].L.Int64()
							s += v
						}
						want = "L|int64|" + strconv.FormatInt(s, 10)
					} else {
						var s float64
						for _, rr := range g.rows {
							v, _ := rr[a.in].L.Float64()
							s += v
						}
						want = fmt.Sprintf("float64~%g", s)
						if c != nil && c.L != nil {
							if f, err := c.L.Float64(); err == nil && floatsClose(f, s, len(g.rows)) {
								gotV = want
							}
						}
					}
				}
				if okv && gotV != want {
					ww := w()
					ww["group"], ww["aggregate"], ww["want"], ww["got"] = cv.Show(k), a.op+"("+a.in+")", want, gotV
					r.Violation("wrong-"+a.op+"/"+class, fmt.Sprintf("%s(%s) of group %s is %s, the group's solutions give %s", a.op, a.in, cv.Show(k), gotV, want), ww)
					bad = true
				}
			}
			if bad {
				break
			}
		}
		// the same grouped query with LIMIT n: min(n, G) of the G group rows,
		// unchanged (the limit applies to the groups, not to what is aggregated)
		if !bad && rng.Intn(2) == 0 {
			G := len(groups)
			lim := rng.Intn(G + 2)
			ql := *q
			ql.Limit = fmt.Sprintf(`"%d"^^type:int64`, lim)
			r.Begin(ql.Text())
			r.Eval(1)
			lt, _, lerr := bq.Run(ctx, st, ql.Text(), 0, 10)
			wantN := lim
			if G < wantN {
				wantN = G
			}
			ww := func() map[string]interface{} {
				m := w()
				m["statement"], m["grouped_statement"] = ql.Text(), text
				return m
			}
			if lerr != nil || lt == nil {
				m := ww()
				m["error"] = fmt.Sprint(lerr)
				r.Violation("groupby-limit/unexpected-error/"+class, "LIMIT made the grouped query fail: "+fmt.Sprint(lerr), m)
			} else {
				// match every row with the row of its group in the unlimited result;
				// float sums may differ in the last bits (the order of addition is
				// not fixed), everything else must be identical
				var extra []string
				seenKey := map[string]bool{}
				for _, row := range lt.Rows() {
					var key []string
					for _, b := range groupOut {
						key = append(key, cv.Cell(row[b]))
					}
					k := strings.Join(key, "\x1e")
					fr := got[k]
					same := len(fr) == 1 && !seenKey[k]
					seenKey[k] = true
					if same {
						for _, a := range aggs {
							x, y := row[a.out], fr[0][a.out]
							if cv.Cell(x) == cv.Cell(y) {
								continue
							}
							fx, ex := 0.0, fmt.Errorf("no literal")
							fy, ey := 0.0, fmt.Errorf("no literal")
							if x != nil && x.L != nil {
								fx, ex = x.L.Float64()
							}
							if y != nil && y.L != nil {
								fy, ey = y.L.Float64()
							}
							if a.op != "sum" || ex != nil || ey != nil || !floatsClose(fx, fy, len(groups[k].rows)) {
								same = false
							}
						}
					}
					if !same {
						extra = append(extra, cv.Row(row, q.OutBindings()))
					}
				}
				lrows := lt.Rows()
				if len(extra) > 0 {
					m := ww()
					m["rows_not_in_grouped_result"] = showAll(extra, 4)
					r.Violation("groupby-limit/changed-group-rows/"+class, fmt.Sprintf("with LIMIT %d the grouped query returns %d rows that the query without LIMIT does not return (aggregates computed from truncated solutions?)", lim, len(extra)), m)
				} else if len(lrows) != wantN {
					r.Violation("groupby-limit/row-count/"+class, fmt.Sprintf("with LIMIT %d the grouped query returns %d rows, there are %d groups", lim, len(lrows), G), ww())
				}
				r.Count("grouped_queries_with_limit", 1)
			}
		}
		// non-trivial: >=2 groups, one of size >=2, and a mixed-kind key column
		// or a duplicate value inside a group
		if !bad && len(groups) >= 2 {
			big, dup := false, false
			for _, g := range groups {
				if len(g.rows) >= 2 {
					big = true
					seen := map[string]bool{}
					for _, rr := range g.rows {
						c := cv.Cell(rr[aggs[0].in])
						if seen[c] {
							dup = true
						}
						seen[c] = true
					}
				}
			}
			if big && (mixed || dup) {
				r.Nontrivial(text)
			}
		}
		r.Count("groups_checked", len(groups))
		if i == 0 {
			r.Sample(map[string]interface{}{"statement": text, "groups": len(groups), "solutions": pt.NumRows()})
		}
	}
}

// c11SeparatorProbe: grouping by two columns whose values contain the pieces a
// naive "join the columns with a separator" key would be made of: two different
// combinations of grouping values must stay two groups.
func c11SeparatorProbe(r *rt.Rec) {
	ctx := context.Background()
	p := gen.MustImm("p")
	mk := func(a, b string) *triple.Triple {
		return gen.MustTriple(gen.MustNode("/u", a), p, triple.NewNodeObject(gen.MustNode("/u", b)))
	}
	for _, sep := range []string{";", ";S:", ",", "|", "\t", " ", "\x00", "\x1e", ":", "/", "\"", ";N:/u", "S:"} {
		// (x+sep+y, z) and (x, y+sep+z) are different pairs with the same concatenation
		data := bq.Data{"?g1": {mk("x"+sep+"y", "z"), mk("x", "y"+sep+"z"), mk("x", "z"), mk("x"+sep+"y", "z2")}}
		for _, text := range []string{
			`SELECT ?ia, ?ib, count(?pp) AS ?n FROM ?g1 WHERE { ?a ID ?ia ?pp ?b ID ?ib } GROUP BY ?ia, ?ib;`,
			`SELECT ?a, ?b, count(?pp) AS ?n FROM ?g1 WHERE { ?a ?pp ?b } GROUP BY ?a, ?b;`,
			`SELECT ?ia, ?b, count(?pp) AS ?n FROM ?g1 WHERE { ?a ID ?ia ?pp ?b } GROUP BY ?b, ?ia;`,
		} {
			r.Begin(fmt.Sprintf("separator %q: %s", sep, text))
			r.Eval(1)
			st := bq.NewStore(ctx, data)
			tbl, _, err := bq.Run(ctx, st, text, 0, 10)
			if err != nil || tbl == nil {
				r.Violation("separator-probe/unexpected-error", fmt.Sprintf("grouping by two columns failed: %v", err), map[string]interface{}{"statement": text, "data": bq.DataStrings(data)})
				continue
			}
			bad := false
			for _, row := range tbl.Rows() {
				if c := row["?n"]; c == nil || c.L == nil || cv.Cell(c) != "L|int64|1" {
					bad = true
				}
			}
			if tbl.NumRows() != 4 || bad {
				r.Violation("separator-probe/groups-merged", fmt.Sprintf("4 solutions with 4 different combinations of two grouping values give %d rows (every count must be 1): two combinations whose values concatenate to the same text around %q were merged", tbl.NumRows(), sep),
					map[string]interface{}{"statement": text, "data": bq.DataStrings(data), "separator": sep, "rows": tbl.NumRows()})
			}
			r.NontrivialDistinct(1)
		}
	}
}

func init() {
	register(&rt.Check{
		ID:    "C11",
		Level: "exploration",
		Rule: "dense random data with int64 and float64 facts x 1-2 clause patterns x aggregate queries: 1-2 grouping bindings or aliases (columns mixing nodes, predicates, literals of several types), any mix of count / count(distinct) / sum projections (also the same binding aggregated twice, by another or by the very same aggregate under a second alias), shuffled projection and GROUP BY order, patterns without solutions, two grouping columns whose values contain separator-like text ((x+sep+y, z) against (x, y+sep+z)), the grouped query again with LIMIT n (min(n, groups) unchanged group rows); " +
			"oracle, decoupled from C03: the grouped result is compared with a reference grouping of the rows the real engine returns for the same pattern without GROUP BY (group key = canonical values; count = group size; distinct = distinct canonical values; sum in int64 / float64 arithmetic with a relative tolerance); exactly one row per group; empty pattern => empty table, no error; non-trivial = >=2 groups, one of size >=2, and a mixed-kind key column or a duplicate value inside a group; distinct by statement text",
		Assume: []string{"sum is only generated over bindings whose values are all int64 or all float64", "the ungrouped SELECT of the same pattern is the input of the reference grouping (C03 ties it to the data)"},
		Floor:  100,
		Phases: func(tier string, seed int64) []rt.Phase {
			n := 2560
			if tier == "thorough" {
				n = 32000
			}
			return []rt.Phase{
				{Name: "separator-probe", N: 1, Run: func(i int, r *rt.Rec) { c11SeparatorProbe(r) }},
				{Name: "groupby", N: 32, Run: func(i int, r *rt.Rec) { c11Run(r, gen.Rng(seed, "c11", i), n/32) }},
			}
		},
	})
}

var _ = sort.Strings
