package checks

import (
	"context"
	"fmt"
	"math/rand"
	"strings"

	"bwverif/cv"
	"bwverif/gen"
	"bwverif/rt"

	bwio "github.com/google/badwolf/io"
	"github.com/google/badwolf/storage/memory"
	"github.com/google/badwolf/triple"
	"github.com/google/badwolf/triple/literal"
	"github.com/google/badwolf/triple/node"
	"github.com/google/badwolf/triple/predicate"
)

var c15Alphabet = []byte{'"', '@', '[', ']', '^', ':', '<', '>', '/', '_', ',', 'a', '1', ' ', '\t'}

func nodeWellFormed(n *node.Node) string {
	if n == nil {
		return "nil node"
	}
	if n.Type() == nil || string(*n.Type()) == "" {
		return "empty node type"
	}
	if n.ID() == nil || string(*n.ID()) == "" {
		return "empty node id"
	}
	_ = n.String()
	_ = n.UUID()
	return ""
}

func predWellFormed(p *predicate.Predicate) string {
	if p == nil {
		return "nil predicate"
	}
	if p.ID() == "" {
		return "empty predicate id"
	}
	ta, err := p.TimeAnchor()
	if p.Type() == predicate.Temporal && (err != nil || ta == nil) {
		return "temporal predicate without anchor"
	}
	if p.Type() == predicate.Immutable && err == nil {
		return "immutable predicate with anchor"
	}
	_ = p.String()
	_ = p.UUID()
	return ""
}

func litWellFormed(l *literal.Literal) string {
	if l == nil {
		return "nil literal"
	}
	ok := false
	switch l.Interface().(type) {
	case bool:
		ok = l.Type() == literal.Bool
	case int64:
		ok = l.Type() == literal.Int64
	case float64:
		ok = l.Type() == literal.Float64
	case string:
		ok = l.Type() == literal.Text
	case []byte:
		ok = l.Type() == literal.Blob
	}
	if !ok {
		return fmt.Sprintf("literal type %v does not match value %T", l.Type(), l.Interface())
	}
	_ = l.String()
	_ = l.UUID()
	return ""
}

func objWellFormed(o *triple.Object) string {
	if o == nil {
		return "nil object"
	}
	c := cv.Obj(o)
	if strings.HasPrefix(c, "O|") {
		return "object boxes no value or several: " + c
	}
	if n, err := o.Node(); err == nil {
		if w := nodeWellFormed(n); w != "" {
			return w
		}
	}
	if p, err := o.Predicate(); err == nil {
		if w := predWellFormed(p); w != "" {
			return w
		}
	}
	if l, err := o.Literal(); err == nil {
		if w := litWellFormed(l); w != "" {
			return w
		}
	}
	_ = o.String()
	_ = o.UUID()
	return ""
}

func tripleWellFormed(t *triple.Triple) string {
	if t == nil {
		return "nil triple"
	}
	if w := nodeWellFormed(t.Subject()); w != "" {
		return "subject: " + w
	}
	if w := predWellFormed(t.Predicate()); w != "" {
		return "predicate: " + w
	}
	if w := objWellFormed(t.Object()); w != "" {
		return "object: " + w
	}
	_ = t.String()
	_ = t.UUID()
	return ""
}

// c15One offers one string to all parsers. It returns (accepted by some,
// rejected by some).
func c15One(r *rt.Rec, s string, bounded literal.Builder) (acc, rej bool) {
	r.Note(s)
	r.Eval(1)
	note := func(err error) {
		if err == nil {
			acc = true
		} else {
			rej = true
		}
	}
	guard(r, "node.Parse", s, func() {
		n, err := node.Parse(s)
		note(err)
		if err != nil {
			return
		}
		if w := nodeWellFormed(n); w != "" {
			r.Violation("malformed/node.Parse/"+strings.SplitN(w, ":", 2)[0], "node.Parse returned no error and "+w, s)
			return
		}
		n2, err := node.Parse(n.String())
		if err != nil {
			r.Violation("reparse/node.Parse/error/"+features(n.ID().String()), "accepted node prints to text that is rejected: "+err.Error(), s)
		} else if cv.Node(n2) != cv.Node(n) {
			r.Violation("reparse/node.Parse/different/"+features(n.ID().String()), "accepted node re-parses to a different value", s)
		}
	})
	guard(r, "predicate.Parse", s, func() {
		p, err := predicate.Parse(s)
		note(err)
		if err != nil {
			return
		}
		if w := predWellFormed(p); w != "" {
			r.Violation("malformed/predicate.Parse/"+w, "predicate.Parse returned no error and "+w, s)
			return
		}
		p2, err := predicate.Parse(p.String())
		if err != nil {
			r.Violation("reparse/predicate.Parse/error/"+features(string(p.ID())), "accepted predicate prints to text that is rejected: "+err.Error(), s)
		} else if cv.Pred(p2) != cv.Pred(p) {
			r.Violation("reparse/predicate.Parse/different/"+features(string(p.ID())), "accepted predicate re-parses to a different value", s)
		}
	})
	for bi, b := range []literal.Builder{literal.DefaultBuilder(), bounded} {
		name := []string{"literal.Parse", "bounded.Parse"}[bi]
		b := b
		guard(r, name, s, func() {
			l, err := b.Parse(s)
			note(err)
			if err != nil {
				return
			}
			if w := litWellFormed(l); w != "" {
				r.Violation("malformed/"+name+"/"+strings.SplitN(w, " ", 3)[0]+"-"+strings.SplitN(w, " ", 3)[1], name+" returned no error and "+w, s)
				return
			}
			l2, err := b.Parse(l.String())
			if err != nil {
				r.Violation("reparse/"+name+"/error/"+litClass(l), "accepted literal prints to text that is rejected: "+err.Error(), s)
			} else if l2 == nil || cv.Lit(l2) != cv.Lit(l) {
				r.Violation("reparse/"+name+"/different/"+litClass(l), "accepted literal re-parses to a different value", s)
			}
		})
	}
	guard(r, "triple.ParseObject", s, func() {
		o, err := triple.ParseObject(s, literal.DefaultBuilder())
		note(err)
		if err != nil {
			return
		}
		if w := objWellFormed(o); w != "" {
			r.Violation("malformed/triple.ParseObject/"+strings.SplitN(w, ":", 2)[0], "triple.ParseObject returned no error and "+w, s)
			return
		}
		o2, err := triple.ParseObject(o.String(), literal.DefaultBuilder())
		if err != nil {
			r.Violation("reparse/triple.ParseObject/error/"+features(o.String()), "accepted object prints to text that is rejected: "+err.Error(), s)
		} else if cv.Obj(o2) != cv.Obj(o) {
			r.Violation("reparse/triple.ParseObject/different/"+features(o.String()), "accepted object re-parses to a different value", s)
		}
	})
	guard(r, "triple.Parse", s, func() {
		t, err := triple.Parse(s, literal.DefaultBuilder())
		note(err)
		if err != nil {
			return
		}
		if w := tripleWellFormed(t); w != "" {
			r.Violation("malformed/triple.Parse/"+strings.SplitN(w, ":", 2)[0], "triple.Parse returned no error and "+w, s)
			return
		}
		t2, err := triple.Parse(t.String(), literal.DefaultBuilder())
		if err != nil {
			r.Violation("reparse/triple.Parse/error/"+tripleClass(t), "accepted triple prints to text that is rejected: "+err.Error(), s)
		} else if cv.Triple(t2) != cv.Triple(t) {
			r.Violation("reparse/triple.Parse/different/"+tripleClass(t), "accepted triple re-parses to a different value", s)
		}
	})
	return
}

func c15Enumerate(r *rt.Rec, prefix []byte, maxLen int, bounded literal.Builder) {
	buf := make([]byte, 0, maxLen)
	buf = append(buf, prefix...)
	nt := 0
	var rec func()
	rec = func() {
		s := string(buf)
		acc, rej := c15One(r, s, bounded)
		if (acc || rej) && strings.ContainsAny(s, "\"@[]^:<>/_") {
			nt++
		}
		if len(buf) >= maxLen {
			return
		}
		for _, c := range c15Alphabet {
			buf = append(buf, c)
			rec()
			buf = buf[:len(buf)-1]
		}
	}
	rec()
	r.NontrivialDistinct(nt)
}

var (
	c15X = []string{"", "a", "[", "[]", "[1", "1]", "[256]", "[1 2]", "[ ]", "[-1]", "true", "5", "-", "1e400", "NaN", "0x10", "9223372036854775808", "\"", "\\", "a\"b", "\"^^type:", "\"@[", " ", "\t", "日本"}
	c15T = []string{"", "bool", "int64", "float64", "text", "blob", "BOOL", "Text", "string", "int", "blob ", " text", "text\"", "type:text", "b", "text^^type:text"}
	c15Y = []string{"", "\"", "\"\"", "]", "[", ",", "?t", "2016", "2016-01-01", "2016-01-01T00:00:00", "2016-01-01T00:00:00Z", "\"2016-01-01T00:00:00Z\"", "\"2016-01-01T00:00:00Z", "2016-01-01T00:00:00Z\"", "2016-01-01T00:00:00+25:00", "2016-01-01T00:00:00.123456789123Z", "2016-13-01T00:00:00Z", "0000-01-01T00:00:00Z", "10000-01-01T00:00:00Z", "2016-01-01T00:00:00Z,", "2016-01-01t00:00:00z"}
	c15N = []string{"", "/", "/u", "u", "/u/", "/u x", "//", "/_", "_", "_:", "/u<"}
)

func c15Templates(r *rt.Rec, part, parts int, bounded literal.Builder) {
	var all []string
	for _, x := range c15X {
		for _, t := range c15T {
			all = append(all, `"`+x+`"^^type:`+t, `"`+x+`"^type:`+t, `"`+x+`"^^`+t, x+`"^^type:`+t)
		}
		for _, y := range c15Y {
			all = append(all, `"`+x+`"@[`+y+`]`, `"`+x+`"@[`+y, `"`+x+`"@`+y+`]`, `"`+x+`@[`+y+`]`)
		}
		for _, n := range c15N {
			all = append(all, n+"<"+x+">", n+"<"+x, n+x+">", "_:"+x, "_"+x, n+"<"+x+">>", n+"<<"+x+">")
		}
	}
	// dates cut at every position
	full := `"p"@[2016-01-02T03:04:05.123456789+07:30]`
	for i := 0; i <= len(full); i++ {
		all = append(all, full[:i], full[:i]+"]")
	}
	subj := []string{"/u<a>", "", "/u<a", "u<a>", "_:b", "/u<a b>", "/u<a] /x>", "/u<a\tb>", "/u<\ta>", "/u<a\t\"p\"@[]\t/u<b>>"}
	pred := []string{`"p"@[]`, `"p"@[2016-01-01T00:00:00Z]`, "", `"p"@[`, `p@[]`, `"p"`, `"p]\t/"@[]`}
	obj := []string{"/u<b>", `"5"^^type:int64`, `"q"@[]`, "", `"x"^^type:foo`, `"a]\t/b"^^type:text`, `"[1 2]"^^type:blob`, `"[]"^^type:blob`, `""^^type:blob`, "_:c"}
	seps := []string{"\t", " ", "", "\t\t", " \t "}
	for _, s := range subj {
		for _, p := range pred {
			for _, o := range obj {
				for _, sep := range seps {
					all = append(all, s+sep+p+sep+o)
				}
			}
		}
	}
	// indentation: k bytes of leading (and trailing) whitespace before every
	// prefix of a printed triple, a predicate, a literal and a node
	for _, full := range []string{"/u<a>\t\"p\"@[]\t/u<b>", "/u<a>\t\"p\"@[2016-01-02T03:04:05Z]\t\"5\"^^type:int64", `"p"@[2016-01-02T03:04:05Z]`, `"abc"^^type:text`, "/u<a>"} {
		for _, k := range []int{1, 2, 3, 7, 40} {
			for _, ws := range []string{" ", "\t"} {
				ind := strings.Repeat(ws, k)
				for cut := 0; cut <= len(full); cut++ {
					all = append(all, ind+full[:cut], ind+full[:cut]+ind)
				}
			}
		}
	}
	nt := 0
	for i, s := range all {
		if i%parts != part {
			continue
		}
		acc, rej := c15One(r, s, bounded)
		if acc || rej {
			nt++
		}
	}
	r.NontrivialDistinct(nt)
	if part == 0 {
		r.Sample(map[string]interface{}{"template_inputs": len(all), "example": all[len(all)/2]})
	}
}

func mutate(rng *rand.Rand, s string) string {
	b := []byte(s)
	inj := []string{`"`, `"@[`, `"^^type:`, "]", "[", "<", ">", "\t", " ", "^^", "@", ",", "\\", "/", "_", ":"}
	switch rng.Intn(6) {
	case 0: // truncation
		if len(b) > 0 {
			b = b[:rng.Intn(len(b))]
		}
	case 1: // cut the head
		if len(b) > 0 {
			b = b[rng.Intn(len(b)):]
		}
	case 2: // deletion
		if len(b) > 0 {
			i := rng.Intn(len(b))
			n := 1 + rng.Intn(3)
			if i+n > len(b) {
				n = len(b) - i
			}
			b = append(b[:i:i], b[i+n:]...)
		}
	case 3: // duplication
		if len(b) > 0 {
			i := rng.Intn(len(b))
			n := 1 + rng.Intn(6)
			if i+n > len(b) {
				n = len(b) - i
			}
			seg := append([]byte{}, b[i:i+n]...)
			b = append(b[:i+n:i+n], append(seg, b[i+n:]...)...)
		}
	case 4: // delimiter injection
		i := rng.Intn(len(b) + 1)
		x := inj[rng.Intn(len(inj))]
		b = append(b[:i:i], append([]byte(x), b[i:]...)...)
	default: // replace one byte
		if len(b) > 0 {
			b[rng.Intn(len(b))] = c15Alphabet[rng.Intn(len(c15Alphabet))]
		}
	}
	return string(b)
}

func c15Mutations(r *rt.Rec, rng *rand.Rand, n int, bounded literal.Builder) {
	for k := 0; k < n; k++ {
		var s string
		switch rng.Intn(5) {
		case 0:
			s = gen.HNode(rng).String()
		case 1:
			s = gen.HPred(rng).String()
		case 2:
			s = gen.HLit(rng, false).String()
		case 3:
			s = gen.HTriple(rng, false).String()
		default: // random string
			l := rng.Intn(12)
			b := make([]byte, l)
			for i := range b {
				if rng.Intn(3) == 0 {
					b[i] = byte(rng.Intn(256))
				} else {
					b[i] = c15Alphabet[rng.Intn(len(c15Alphabet))]
				}
			}
			s = string(b)
		}
		for m := 1 + rng.Intn(2); m > 0; m-- {
			s = mutate(rng, s)
		}
		acc, rej := c15One(r, s, bounded)
		if (acc || rej) && strings.ContainsAny(s, "\"@[]^:<>/_") {
			r.Nontrivial(s)
		}
		if k == 0 {
			r.Sample(map[string]interface{}{"mutated_input": s, "accepted_by_some": acc, "rejected_by_some": rej})
		}
	}
}

// c15Reader checks the line-oriented reader: exactly the triples on the lines
// before the first malformed line are loaded and that count is returned.
func c15Reader(r *rt.Rec, rng *rand.Rand, n int) {
	ctx := context.Background()
	valid := []string{
		"/u<a>\t\"p\"@[]\t/u<b>",
		"/u<a>\t\"p\"@[2016-01-01T00:00:00Z]\t\"5\"^^type:int64",
		"/t<b c>\t\"q\"@[]\t\"abc\"^^type:text",
		"/u<c>\t\"q\"@[2017-01-01T00:00:00+01:00]\t\"p\"@[]",
		"/u<a>\t\"_r\"@[]\t\"[1 2]\"^^type:blob",
		"/u<b>\t\"p\"@[]\t\"true\"^^type:bool",
		"/u<b>\t\"p\"@[]\t\"-2.5\"^^type:float64",
	}
	bad := []string{"garbage", "/u<a>\t\"p\"@[]", "/u<a>\t\"p\"@[]\t\"x\"^^type:foo", "/u<a>\t\"p\"@[2016]\t/u<b>", "u<a>\t\"p\"@[]\t/u<b>", "/u<a>\t\"p\"@[]\t\"5\"^^type:bool", "\"p\"@[]\t/u<b>", "/u<a>\t\"p\"@[]\t\"[1 2\"^^type:blob x"}
	// well-formed lines longer than any reader buffer (4 KiB, 64 KiB): a long line
	// is not a malformed line
	long := append([]string{}, valid...)
	for _, l := range []int{4000, 4096, 5000, 66000} {
		long = append(long, "/u<a>\t\"long\"@[]\t\""+strings.Repeat("x", l)+"\"^^type:text", "/u<"+strings.Repeat("n", l)+">\t\"p\"@[]\t/u<b>")
	}
	// lines whose byte length is exactly a buffer size (with and without a final
	// newline they must load)
	for _, l := range []int{4096, 8192, 65536} {
		pre, post := "/u<a>\t\"long\"@[]\t\"", "\"^^type:text"
		long = append(long, pre+strings.Repeat("y", l-len(pre)-len(post))+post)
	}
	short := valid
	for k := 0; k < n; k++ {
		valid = short
		if k%5 == 4 {
			valid = long
		}
		nl := 1 + rng.Intn(7)
		if k%40 == 39 {
			nl = 200 + rng.Intn(300) // a file much larger than any buffer
		}
		if k%160 == 159 {
			nl = 1024 + rng.Intn(80) // more lines than any plausible batch size
		}
		badPos := rng.Intn(nl + 1) // == nl: no malformed line
		eol := "\n"
		if rng.Intn(3) == 0 {
			eol = "\r\n"
		}
		var sb strings.Builder
		var want []string
		seen := map[string]bool{}
		wantCount := 0
		var badLine string
		for i := 0; i < nl; i++ {
			if rng.Intn(4) == 0 {
				sb.WriteString([]string{"", "  ", "\t"}[rng.Intn(3)] + eol)
			}
			if i == badPos {
				badLine = bad[rng.Intn(len(bad))]
				sb.WriteString(badLine)
			} else {
				ln := valid[rng.Intn(len(valid))]
				if rng.Intn(4) == 0 {
					ln = "  " + ln + " \t"
				}
				sb.WriteString(ln)
				if i < badPos {
					wantCount++
					t, err := triple.Parse(ln, literal.DefaultBuilder())
					if err != nil {
						r.Violation("reader/valid-line-rejected", "triple.Parse rejects a valid line: "+err.Error(), ln)
						continue
					}
					if c := cv.Triple(t); !seen[c] {
						seen[c] = true
						want = append(want, c)
					}
				}
			}
			if i < nl-1 || rng.Intn(2) == 0 {
				sb.WriteString(eol)
			}
		}
		text := sb.String()
		r.Note("reader: " + text)
		r.Eval(1)
		st := memory.NewStore()
		g, _ := st.NewGraph(ctx, "?g")
		var cnt int
		var err error
		if guard(r, "io.ReadIntoGraph", text, func() { cnt, err = bwio.ReadIntoGraph(ctx, g, strings.NewReader(text), literal.DefaultBuilder()) }) {
			continue
		}
		if badPos < nl && err == nil {
			r.Violation("reader/malformed-line-accepted", "ReadIntoGraph returned no error although line is malformed: "+badLine, text)
			continue
		}
		if badPos == nl && err != nil {
			r.Violation("reader/valid-file-rejected", "ReadIntoGraph failed on a file of valid lines: "+err.Error(), text)
			continue
		}
		if cnt != wantCount {
			r.Violation("reader/count", fmt.Sprintf("ReadIntoGraph reported %d, %d valid lines precede the first malformed line", cnt, wantCount), text)
		}
		got, _ := listGraph(ctx, g)
		gs := canonSet(got)
		ws := append([]string{}, want...)
		sortStrings(ws)
		a, b := cv.MultisetDiff(ws, gs)
		if len(a) > 0 || len(b) > 0 {
			r.Violation("reader/content", fmt.Sprintf("graph content differs from the lines before the first malformed line: missing %d extra %d", len(a), len(b)), text)
		}
		if badPos > 0 && badPos < nl {
			r.Nontrivial(text)
		}
		if k == 0 {
			r.Sample(map[string]interface{}{"reader_input": text, "reported": cnt, "error": fmt.Sprint(err)})
		}
	}
}

func init() {
	register(&rt.Check{
		ID:    "C15",
		Level: "exploration",
		Rule: "every string up to length L over the 15-character delimiter alphabet (\" @ [ ] ^ : < > / _ , a 1 space tab; L=4 quick, 6 thorough, enumerated completely), template fillings, mutations of valid printed values (truncate, delete, duplicate, inject delimiter) and random strings are offered to node.Parse, predicate.Parse, DefaultBuilder().Parse, NewBoundedBuilder(8).Parse, triple.ParseObject, triple.Parse; files with one malformed line at a random position to io.ReadIntoGraph; " +
			"monitor: recover(), value well-formed xor error, accepted value prints to text that re-parses to an equal value; non-trivial = contains a delimiter and is accepted or rejected by at least one parser; enumerated strings are distinct by construction, others by text",
		Assume: []string{"equality via accessor-based canonical values", "a malformed line is one that triple.Parse rejects by construction (garbage, missing object, unknown literal type, bad anchor)"},
		Floor:  10000,
		Phases: func(tier string, seed int64) []rt.Phase {
			maxLen, muts, rd := 4, 30000, 3000
			if tier == "thorough" {
				maxLen, muts, rd = 6, 500000, 40000
			}
			bounded := literal.NewBoundedBuilder(8)
			np := len(c15Alphabet) * len(c15Alphabet)
			return []rt.Phase{
				{Name: "enumerate", N: np + 1, Exhaustive: true, Run: func(i int, r *rt.Rec) {
					if i == 0 {
						c15One(r, "", bounded)
						for _, c := range c15Alphabet {
							c15One(r, string([]byte{c}), bounded)
						}
						r.NontrivialDistinct(10)
						return
					}
					j := i - 1
					c15Enumerate(r, []byte{c15Alphabet[j/len(c15Alphabet)], c15Alphabet[j%len(c15Alphabet)]}, maxLen, bounded)
				}},
				{Name: "templates", N: 16, Exhaustive: true, Run: func(i int, r *rt.Rec) { c15Templates(r, i, 16, bounded) }},
				{Name: "mutations", N: 32, Run: func(i int, r *rt.Rec) { c15Mutations(r, gen.Rng(seed, "c15m", i), muts/32, bounded) }},
				{Name: "reader", N: 16, Run: func(i int, r *rt.Rec) { c15Reader(r, gen.Rng(seed, "c15r", i), rd/16) }},
			}
		},
	})
}
