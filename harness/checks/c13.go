package checks

import (
	"context"
	"fmt"
	"math/rand"
	"strings"

	"bwverif/bq"
	"bwverif/cv"
	"bwverif/gen"
	"bwverif/rt"

	"github.com/google/badwolf/bql/table"
)

func rowVals(row table.Row, outs []string) map[string]bq.Val {
	m := map[string]bq.Val{}
	for _, b := range outs {
		c := row[b]
		if c == nil {
			m[b] = bq.Null
			continue
		}
		m[b] = bq.CellVal(c.S, c.N, c.P, c.L, c.T)
	}
	return m
}

// exprFeatures lists what a HAVING expression uses (for violation classes).
func exprFeatures(e *bq.HExpr, kinds map[string]string, fs map[string]bool) {
	switch e.Kind {
	case "cmp":
		k := kinds[e.Left]
		r := "binding"
		switch {
		case e.RLit != nil:
			r = e.RLit.Type().String()
		case e.RNode != nil:
			r = "node"
		case e.RPred != nil:
			r = "pred"
		case e.RTime != nil:
			r = "time"
		}
		fs["cmp:"+k+e.Op+r] = true
	case "not", "paren":
		fs[e.Kind] = true
		exprFeatures(e.L, kinds, fs)
	default:
		fs[e.Kind] = true
		exprFeatures(e.L, kinds, fs)
		exprFeatures(e.R, kinds, fs)
	}
}

func c13Run(r *rt.Rec, rng *rand.Rand, n int) {
	ctx := context.Background()
	var data bq.Data
	for i := 0; i < n; i++ {
		if i%20 == 0 {
			data = gen.DenseDataSet(rng, 1+rng.Intn(2), 10+rng.Intn(16), true)
		}
		all := gen.AllTriples(data)
		graphs := gen.GraphVars[:len(data)]
		cs := gen.MatchingPattern(rng, all, 1+rng.Intn(2))
		base := gen.SelectAll(cs, graphs)
		if len(base.Vars) == 0 {
			continue
		}
		gen.Reproject(rng, base)
		if rng.Intn(5) == 0 && len(base.Vars) >= 2 {
			// HAVING is applied after grouping: test aggregate outputs
			k := base.Vars[0]
			op := []string{"count", "countd"}[rng.Intn(2)]
			alias := "?agg"
			if rng.Intn(2) == 0 && base.Vars[1].Binding != k.Out() {
				// the aggregate output named like its input binding: HAVING must see
				// the aggregate, not the raw values
				alias = base.Vars[1].Binding
				r.Count("aggregate_alias_named_like_input", 1)
			}
			base.Vars = []bq.Proj{k, {Binding: base.Vars[1].Binding, Alias: alias, Op: op}}
			base.GroupBy = []string{k.Out()}
		}
		t0, err, pan := runQ(ctx, r, data, base.Text())
		if pan || err != nil || t0 == nil || t0.NumRows() == 0 || t0.NumRows() > 1500 {
			r.Count("base_query_unusable", 1)
			continue
		}
		outs := base.OutBindings()
		ck := columnKinds(t0, outs)
		kinds := map[string]string{}
		for _, b := range outs {
			k := onlyKind(ck[b])
			if k == "str" {
				k = "text"
			}
			kinds[b] = k
		}
		for rep := 0; rep < 3; rep++ {
			e := gen.HavingExpr(rng, kinds, 1+rng.Intn(4), true)
			q := *base
			q.Having = e.Text()
			text := q.Text()
			fs := map[string]bool{}
			exprFeatures(e, kinds, fs)
			var fl []string
			for f := range fs {
				if strings.HasPrefix(f, "cmp:") {
					fl = append(fl, f)
				}
			}
			sortStrings(fl)
			if len(fl) > 2 {
				fl = fl[:2]
			}
			class := strings.Join(fl, ",")
			r.Eval(1)
			// reference filter of the rows without HAVING
			var want []string
			mismatch := false
			for _, row := range t0.Rows() {
				keep, mm := e.Eval(rowVals(row, outs))
				if mm {
					mismatch = true
				}
				if keep {
					want = append(want, cv.Row(row, outs))
				}
			}
			sortStrings(want)
			t1, err, pan := runQ(ctx, r, data, text)
			if pan {
				continue
			}
			w := func() map[string]interface{} {
				return map[string]interface{}{"statement": text, "base_statement": base.Text(), "data": bq.DataStrings(data), "having": e.Text()}
			}
			if err != nil {
				if strings.Contains(err.Error(), "Failed to consume symbol HAVING") {
					// a form the grammar admits but the expression builder rejects
					// while parsing: counted, not judged (no rows were filtered)
					r.Count("rejected_by_expression_builder", 1)
					continue
				}
				if mismatch {
					// comparing a value with an operand of another kind (or ordering
					// nodes / predicates) may be rejected
					r.Count("rejected_kind_mismatch", 1)
					continue
				}
				ww := w()
				ww["error"] = err.Error()
				r.Violation("unexpected-error/"+class+"/"+errClass(err), "HAVING over operands of matching kinds failed: "+err.Error(), ww)
				continue
			}
			got := bq.TableRows(t1, outs)
			a, b := cv.MultisetDiff(want, got)
			if len(a) > 0 || len(b) > 0 {
				mode := "drops-satisfying-row"
				if len(a) == 0 {
					mode = "keeps-failing-row"
				} else if len(b) > 0 {
					mode = "keeps-and-drops-wrongly"
				}
				ww := w()
				ww["wrongly_dropped"], ww["wrongly_kept"] = showAll(a, 4), showAll(b, 4)
				ww["bindings"] = outs
				r.Violation("having-"+mode+"/"+class, fmt.Sprintf("HAVING %s: %d satisfying rows dropped, %d failing rows kept (of %d rows)", e.Text(), len(a), len(b), t0.NumRows()), ww)
				continue
			}
			if len(want) > 0 && len(want) < t0.NumRows() {
				r.Nontrivial(text)
			}
			if i == 0 && rep == 0 {
				r.Sample(map[string]interface{}{"statement": text, "rows_without_having": t0.NumRows(), "rows_kept": len(want)})
			}
		}
	}
}

func init() {
	register(&rt.Check{
		ID:    "C13",
		Level: "exploration",
		Rule: "dense numeric data x base queries (1-2 clause patterns with ID/TYPE strings, AT and anchor times, aliases; sometimes GROUP BY with a count output) x HAVING expressions generated from the forms the expression builder accepts (cmp, NOT e, (e), (e) AND|OR e, nesting <= 4): operands of every kind - bindings vs int64/float64 (negative, fractional, > 6 decimals, |x| > 10^31), text incl. characters below '\"', nodes, predicates (anchor in another zone), times in other zones and precisions, other bindings of the same kind, and constants of a different kind than the column; " +
			"oracle: rows with HAVING == rows without it filtered by a typed reference evaluation (numbers numerically, times as instants, text and extracted ids/types lexicographically, node/predicate equality by value, a comparison across kinds is false or the query is rejected); kept rows unchanged; non-trivial = keeps >=1 and drops >=1 row; distinct by statement text",
		Assume: []string{"order comparisons (<, >) are only generated for numbers, times and text; for other kinds an error is accepted", "an Execute error is accepted only when some evaluated comparison met operands of different kinds"},
		Floor:  200,
		Phases: func(tier string, seed int64) []rt.Phase {
			n := 1280
			if tier == "thorough" {
				n = 16000
			}
			return []rt.Phase{{Name: "having", N: 32, Run: func(i int, r *rt.Rec) { c13Run(r, gen.Rng(seed, "c13", i), n/32) }}}
		},
	})
}
