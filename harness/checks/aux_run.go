package checks

import (
	"context"
	"encoding/json"
	"fmt"
	"os"
	"strings"

	"bwverif/bq"
	"bwverif/gen"

	"github.com/google/badwolf/triple"
	"github.com/google/badwolf/triple/literal"
)

// aux "run": execute the statement(s) of a replay witness against its data and
// print the real result table (triage helper).
func init() {
	Aux["run"] = func(args []string) int {
		b, err := os.ReadFile(args[0])
		if err != nil {
			fmt.Println(err)
			return 1
		}
		var rp struct {
			Witness struct {
				Statement string
				Data      map[string][]string
			}
		}
		if err := json.Unmarshal(b, &rp); err != nil {
			fmt.Println(err)
			return 1
		}
		data := bq.Data{}
		for g, ts := range rp.Witness.Data {
			data[g] = nil
			for _, s := range ts {
				t, err := triple.Parse(s, literal.DefaultBuilder())
				if err != nil {
					fmt.Println("parse:", err)
					return 1
				}
				data[g] = append(data[g], t)
			}
		}
		stmt := rp.Witness.Statement
		if len(args) > 1 {
			stmt = args[1]
		}
		ctx := context.Background()
		st := bq.NewStore(ctx, data)
		tbl, stage, err := bq.Run(ctx, st, stmt, 0, 10)
		fmt.Printf("statement: %s\nstage=%d err=%v\n", stmt, stage, err)
		if tbl != nil {
			fmt.Println(tbl.String())
		}
		return 0
	}
}

// aux "c08": run statement texts given as arguments against C08's populated
// store and print stage, error and table (triage helper).
func init() {
	Aux["c08"] = func(args []string) int {
		ctx := context.Background()
		if len(args) == 1 && args[0] == "mixed" {
			args = nil
			for _, s := range gen.MixedAggregateStatements() {
				st := c08Store(ctx, 1)
				_, stage, err := bq.Run(ctx, st, s, 0, 10)
				if stage == bq.StageParse {
					fmt.Printf("stage=%d err=%v :: %s\n", stage, err, s)
				}
			}
			return 0
		}
		for _, s := range args {
			st := c08Store(ctx, 1)
			tbl, stage, err := bq.Run(ctx, st, s, 0, 10)
			fmt.Printf("statement: %s\nstage=%d err=%v\n", s, stage, err)
			if tbl != nil {
				fmt.Println(tbl.String())
			}
		}
		return 0
	}
}

// aux "c19sched <program index> <schedule as comma list>": run one steered
// schedule of C19's interleaving programs and print what was observed.
func init() {
	Aux["c19sched"] = func(args []string) int {
		var which int
		fmt.Sscan(args[0], &which)
		var schedule []int
		for _, f := range strings.Split(args[1], ",") {
			var k int
			fmt.Sscan(f, &k)
			schedule = append(schedule, k)
		}
		progs := c19Programs()
		trace, ok, detail, _, hist, linear := c19RunSchedule(progs[which%len(progs)], schedule, nil)
		for _, st := range trace {
			fmt.Printf("  step: enabled=%v chosen=%d from=%s\n", st.enabled, st.chosen, st.point)
		}
		fmt.Println("final ok:", ok, detail, "linearizable:", linear)
		for _, h := range hist {
			fmt.Println("  ", h)
		}
		return 0
	}
}
