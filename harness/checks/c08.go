package checks

import (
	"context"
	"fmt"
	"math/rand"
	"strings"
	"sync"
	"sync/atomic"
	"time"

	"bwverif/bq"
	"bwverif/gen"
	"bwverif/gram"
	"bwverif/rt"

	"github.com/google/badwolf/bql/grammar"
	"github.com/google/badwolf/bql/lexer"
	"github.com/google/badwolf/storage"
	"github.com/google/badwolf/storage/memoization"
)

var c08Data = func() bq.Data {
	d := gen.DataSet(gen.Rng(4242, "c08data", 0), 2, 14, true)
	for g, ts := range gen.MixedNumericData() {
		d[g] = ts
	}
	return d
}()

// c08Store builds store number k: 0 empty, 1 populated, 2 populated + memoizer.
func c08Store(ctx context.Context, k int) storage.Store {
	switch k {
	case 0:
		return bq.NewStore(ctx, bq.Data{})
	case 1:
		return bq.NewStore(ctx, c08Data)
	}
	return memoization.New(bq.NewStore(ctx, c08Data))
}

var c08Shared [3]storage.Store

var c08StoreNames = []string{"empty", "populated", "memoized"}

// c08Exec runs one statement text against one store under all process-level
// monitors. It returns the stage reached.
func c08Exec(r *rt.Rec, text string, storeKind int) bq.Stage {
	ctx := context.Background()
	r.Begin(fmt.Sprintf("[%s] %s", c08StoreNames[storeKind], text))
	r.Eval(1)
	// read-only statements share one store per kind; everything else gets a
	// fresh one, built only if the statement gets as far as touching it
	var st storage.Store
	switch strings.ToLower(firstWord(text)) {
	case "select", "show":
		if c08Shared[storeKind] == nil {
			c08Shared[storeKind] = c08Store(ctx, storeKind)
		}
		st = c08Shared[storeKind]
	default:
		st = &bq.LazyStore{Make: func() storage.Store { return c08Store(ctx, storeKind) }}
	}
	before := rt.Snapshot()
	var stage bq.Stage
	shape := func() {
		tbl, sg, err := bq.Run(ctx, st, text, []int{0, 1, 3}[len(text)%3], []int{1, 2, 1000}[len(text)%3])
		stage = sg
		if err == nil && tbl == nil {
			r.Violation("no-table-no-error/"+strings.ToLower(firstWord(text)), "the statement returned neither a table nor an error", map[string]string{"statement": text, "store": c08StoreNames[storeKind]})
		}
	}
	if guard(r, "execute/"+strings.ToLower(firstWord(text)), text, shape) {
		// give goroutines started before the panic a chance to finish
		time.Sleep(time.Millisecond)
	}
	if left := rt.Leaked(before, 2*time.Second); len(left) > 0 {
		cls := map[string]bool{}
		for _, g := range left {
			cls[rt.LeakClass(g)] = true
		}
		for c := range cls {
			r.Violation("goroutine-leak/"+c, fmt.Sprintf("%d goroutine(s) started for the statement are still alive after it returned (stage %d)", len(left), stage),
				map[string]string{"statement": text, "store": c08StoreNames[storeKind], "stack": trim(left[0].Stack, 1500)})
		}
		r.Count("leaked_goroutines", len(left))
	}
	r.Count(fmt.Sprintf("reached_stage_%d", stage), 1)
	return stage
}

func firstWord(s string) string {
	f := strings.Fields(s)
	if len(f) == 0 {
		return "empty"
	}
	w := f[0]
	for i, c := range w {
		if !(c >= 'a' && c <= 'z' || c >= 'A' && c <= 'Z') {
			w = w[:i]
			break
		}
	}
	if w == "" || len(w) > 12 {
		return "other"
	}
	switch strings.ToLower(w) {
	case "select", "insert", "delete", "create", "drop", "construct", "deconstruct", "show":
		return w
	}
	return "other"
}

func c08Tokens(r *rt.Rec, first lexer.TokenType, maxLen int) {
	all := gram.AllKinds()
	seq := []lexer.TokenType{first}
	nt := 0
	var rec func()
	rec = func() {
		text := gram.Render(seq, nil)
		sg := c08Exec(r, text, len(seq)%2)
		if sg >= bq.StageExecute || len(seq) >= 3 {
			nt++
		}
		if len(seq) >= maxLen {
			return
		}
		for _, k := range all {
			seq = append(seq, k)
			rec()
			seq = seq[:len(seq)-1]
		}
	}
	rec()
	r.NontrivialDistinct(nt)
}

func c08Generated(r *rt.Rec, rng *rand.Rand, n int, mutations bool) {
	data := gen.AllTriples(c08Data)
	for i := 0; i < n; i++ {
		text := gen.RandomStatement(rng, data)
		if mutations {
			switch rng.Intn(3) {
			case 0:
				text = mutate(rng, text)
			case 1:
				text = mutate(rng, mutate(rng, text))
			default:
				// token level: delete / duplicate / swap whole tokens
				toks, ok := gram.Lex(text, 0)
				if ok && len(toks) > 2 {
					var parts []string
					for _, t := range toks[:len(toks)-1] {
						parts = append(parts, t.Text)
					}
					j := rng.Intn(len(parts))
					switch rng.Intn(3) {
					case 0:
						parts = append(parts[:j], parts[j+1:]...)
					case 1:
						parts = append(parts[:j+1], parts[j:]...)
					default:
						if j+1 < len(parts) {
							parts[j], parts[j+1] = parts[j+1], parts[j]
						}
					}
					text = strings.Join(parts, " ")
				}
			}
		}
		sg := c08Exec(r, text, 1+rng.Intn(2))
		if rng.Intn(4) == 0 {
			c08Exec(r, text, 0)
		}
		if sg >= bq.StageExecute {
			r.Nontrivial(text)
		}
		if i == 0 {
			r.Sample(map[string]interface{}{"statement": text, "stage_reached": int(sg)})
		}
	}
}

// c08RuntimeTyped: statements that parse and plan, have solutions, and go wrong
// (if at all) only while rows are processed: aggregates over columns mixing
// numeric literals with other kinds of values and NULL, and CONSTRUCT /
// DECONSTRUCT with exactly one ill-kinded binding in a template slot.
func c08RuntimeTyped(r *rt.Rec, rng *rand.Rand, k, n, constructs int) {
	all := gen.MixedAggregateStatements()
	for i := k; i < len(all); i += n {
		sg := c08Exec(r, all[i], 1+i%2)
		if sg >= bq.StageExecute {
			r.Nontrivial(all[i])
		}
	}
	reps := gen.RepeatedNameStatements()
	for i := k; i < len(reps); i += n {
		sg := c08Exec(r, reps[i], 1+i%2)
		if sg >= bq.StageExecute {
			r.Nontrivial(reps[i])
			r.Count("repeated_name_statements_executed", 1)
		}
	}
	nulls := gen.NullReuseStatements()
	for i := k; i < len(nulls); i += n {
		sg := c08Exec(r, nulls[i], 1+i%2)
		if sg >= bq.StageExecute {
			r.Nontrivial(nulls[i])
			r.Count("null_reuse_statements_executed", 1)
		}
	}
	data := gen.AllTriples(c08Data)
	for i := 0; i < constructs; i++ {
		text := gen.IllTypedConstruct(rng, []string{"construct", "deconstruct"}[rng.Intn(2)], data).Text()
		sg := c08Exec(r, text, 1+rng.Intn(2))
		if sg >= bq.StageExecute {
			r.Nontrivial(text)
			r.Count("ill_typed_constructs_executed", 1)
		}
	}
}

// c08Truncations: every prefix of a generated statement that ends at a token
// boundary (the text stops right after a token, with nothing behind it), and
// two whole statements in one text.
func c08Truncations(r *rt.Rec, rng *rand.Rand, n int) {
	data := gen.AllTriples(c08Data)
	for i := 0; i < n; i++ {
		text := gen.RandomStatement(rng, data)
		if i%4 == 0 {
			// a HAVING comparison with a time or a number right at the end
			text = fmt.Sprintf("SELECT ?s, ?t FROM ?g1 WHERE { ?s \"p\"@[?t] ?o } HAVING ?t %s %s;", []string{"<", ">", "="}[rng.Intn(3)], []string{"2016-01-01T00:00:00Z", "2010-03-10T00:00:00-08:00", "2016-01-01T00:00:00.000000001Z"}[rng.Intn(3)])
		} else if i%4 == 2 {
			text = fmt.Sprintf("SELECT ?s FROM ?g1 WHERE { ?s ?p ?o } %s %s;", []string{"BEFORE", "AFTER"}[rng.Intn(2)], "2016-01-01T00:00:00Z")
		}
		toks, ok := gram.Lex(text, 0)
		if !ok {
			continue
		}
		spans, ok := embed(text, toks)
		if !ok {
			continue
		}
		for j := range toks {
			if toks[j].Type == lexer.ItemEOF || spans[j].end == 0 {
				continue
			}
			sg := c08Exec(r, text[:spans[j].end], 1)
			if j >= 3 || sg >= bq.StageExecute {
				r.NontrivialDistinct(1)
			}
		}
		// two statements in one text, and a statement followed by a few stray tokens
		other := gen.RandomStatement(rng, data)
		c08Exec(r, text+" "+other, 1)
		c08Exec(r, text+" "+text+" "+other, 0)
		c08Exec(r, text+" ?a ?b ?c ?d ?e ?f ?g ?h", 1)
	}
}

// c08Sentences: statements derived at random from the grammar table itself
// (every shape the grammar admits, whether or not the semantic layer or the
// planner make sense of it), rendered with the vocabulary of the stores.
func c08Sentences(r *rt.Rec, rng *rand.Rand, n int) {
	g := gram.Load(grammar.BQL())
	_, ma := g.MinLens()
	for i := 0; i < n; i++ {
		t := g.RandomTree(rng, "START", 0, 4+rng.Intn(6), ma, 0.2+0.6*rng.Float64())
		text := gram.Render(g.Tokens(t), gram.DefaultChooser(rng))
		sg := c08Exec(r, text, rng.Intn(3))
		if sg >= bq.StagePlan {
			r.Nontrivial(text)
		}
	}
}

// c08Concurrent runs update statements and read statements on one store at the
// same time: every statement still has to come back with a table or an error,
// no goroutine of the engine may panic (which would end this worker and be
// attributed to the case) and none may be left behind.
func c08Concurrent(r *rt.Rec, rng *rand.Rand, storeKind, rounds int) {
	ctx := context.Background()
	st := c08Store(ctx, storeKind)
	st.NewGraph(ctx, "?cw")
	label := fmt.Sprintf("[%s] concurrent update and read statements", c08StoreNames[storeKind])
	r.Begin(label)
	before := rt.Snapshot()
	batch := func(k, n int) string {
		var b strings.Builder
		for j := 0; j < n; j++ {
			if j > 0 {
				b.WriteString(" .\n")
			}
			fmt.Fprintf(&b, "/n<w%d> \"p%d\"@[] /n<o%d>", (k*n+j)%977, j%3, j%41)
		}
		return b.String()
	}
	reads := []string{
		"select ?s, ?p, ?o from ?cw where {?s ?p ?o} limit \"1\"^^type:int64;",
		"select ?s, ?p, ?o from ?cw where {?s ?p ?o};",
		"select ?o from ?cw where {/n<w3> ?p ?o};",
		"select ?s from ?cw where {?s \"p1\"@[] /n<o7>};",
		"select count(?s) as ?n from ?cw where {?s ?p ?o};",
		"select ?s, ?q from ?cw where {?s \"p0\"@[] ?o . ?o ?q ?z};",
	}
	var wg sync.WaitGroup
	var mu sync.Mutex
	bad := func(key, text string) {
		mu.Lock()
		defer mu.Unlock()
		r.Violation(key, "a statement run while other statements were updating the same graph returned neither a table nor an error", map[string]string{"statement": trim(text, 300), "store": c08StoreNames[storeKind]})
	}
	done := make(chan struct{})
	var nUpd int64
	sizes := []int{1, 40, 400, 1500}
	wg.Add(1)
	go func() {
		defer wg.Done()
		defer close(done)
		for k := 0; k < rounds; k++ {
			n := sizes[k%len(sizes)]
			verb := "insert"
			if k%3 == 2 {
				verb = "delete"
			}
			text := verb + " data into ?cw {" + batch(k, n) + "};"
			if verb == "delete" {
				text = "delete data from ?cw {" + batch(k-1, n) + "};"
			}
			tbl, _, err := bq.Run(ctx, st, text, k%3, []int{1, 2, 1000}[k%3])
			if err == nil && tbl == nil {
				bad("no-table-no-error/concurrent-"+verb, text)
			}
			if err == nil {
				atomic.AddInt64(&nUpd, 1)
			}
		}
	}()
	var nReads int64
	for c := 0; c < 3; c++ {
		wg.Add(1)
		seedC := rng.Int63()
		go func(c int) {
			defer wg.Done()
			lr := rand.New(rand.NewSource(seedC))
			for n := 0; ; n++ {
				select {
				case <-done:
					return
				default:
				}
				text := reads[lr.Intn(len(reads))]
				tbl, _, err := bq.Run(ctx, st, text, n%3, []int{1, 2, 1000}[n%3])
				if err == nil && tbl == nil {
					bad("no-table-no-error/concurrent-select", text)
				}
				atomic.AddInt64(&nReads, 1)
			}
		}(c)
	}
	wg.Wait()
	r.Eval(rounds + int(nReads))
	r.Count("concurrent_update_statements", int(nUpd))
	r.Count("concurrent_read_statements", int(nReads))
	if left := rt.Leaked(before, 2*time.Second); len(left) > 0 {
		r.Violation("goroutine-leak/concurrent/"+rt.LeakClass(left[0]), fmt.Sprintf("%d goroutine(s) started for statements run concurrently are still alive after all of them returned", len(left)),
			map[string]string{"store": c08StoreNames[storeKind], "stack": trim(left[0].Stack, 1500)})
	}
	if nReads > 0 && int(nUpd) == rounds {
		r.Nontrivial(label + fmt.Sprint(rng.Int63()))
	}
}

func c08Random(r *rt.Rec, rng *rand.Rand, n int) {
	words := []string{"select", "from", "where", "{", "}", ";", "?a", "?g1", "/u<a>", `"p"@[]`, `"5"^^type:int64`, ".", ",", "insert", "data", "into", "group", "by", "having", "limit", "(", ")", "count", "as", "optional", "filter", "latest", "between", "2016-01-01T00:00:00Z", "\"", "<", ">", "="}
	for i := 0; i < n; i++ {
		var s string
		switch rng.Intn(3) {
		case 0:
			b := make([]byte, rng.Intn(40))
			for j := range b {
				b[j] = byte(rng.Intn(256))
			}
			s = string(b)
		case 1:
			var rs []rune
			for j := rng.Intn(30); j > 0; j-- {
				rs = append(rs, rune(rng.Intn(0x2fff)))
			}
			s = string(rs)
		default:
			var ws []string
			for j := rng.Intn(14); j > 0; j-- {
				ws = append(ws, words[rng.Intn(len(words))])
			}
			s = strings.Join(ws, " ")
		}
		sg := c08Exec(r, s, rng.Intn(3))
		if sg >= bq.StagePlan {
			r.Nontrivial(s)
		}
	}
}

func init() {
	register(&rt.Check{
		ID:    "C08",
		Level: "exploration",
		Rule: "statement texts against an empty store, a populated memory store and the populated store wrapped in the memoizer: (a) every token sequence up to length L over the 55 token kinds rendered to text (L=2 quick, 3 thorough; complete), (b) generated statements of all eight kinds (vocabulary hitting and missing the data, LIMIT 0/1/-1/2^63-1/float/text, aggregates over empty patterns, bindings reused across S/P/O/ID/TYPE/AT positions, OPTIONAL, bounds), (b2) statements that go wrong only while rows are processed: aggregates (sum / count / count distinct) over columns mixing numeric literals with nodes, text, predicates and NULL in both FROM orders, CONSTRUCT / DECONSTRUCT over satisfiable patterns with exactly one ill-kinded binding in one template slot (first or later pair), lists that repeat a name (ORDER BY / GROUP BY keys, projections, graphs) with aliases on every projection, bindings left NULL by an OPTIONAL clause reused as subject / predicate / object / anchor / bound limit and in HAVING, ORDER BY, GROUP BY, aggregates and templates, (b3) every prefix of a statement that ends right after a token, two statements in one text, a statement followed by stray tokens, (b4) sentences derived at random from the grammar table, (b6) a sample of (b) with GOMAXPROCS=1, (b5) INSERT / DELETE statements of 1 to 1500 triples on a graph while three clients run full-scan, by-subject, by-predicate-object, aggregate and join SELECTs on it (memory store and memoizer; also under -race), (c) character- and token-level mutations of (b), (d) random bytes, random UTF-8 and random keyword salad; a sample also under -race; " +
			"monitor per statement, in a journaling worker process: recover() in the calling goroutine, process exit (panic in an engine goroutine, fatal error, log.Fatal), all-goroutines-blocked and hard watchdog, goroutine-leak snapshot after return, table-xor-error; non-trivial = reached Execute (parsed and planned) or was rejected after >=3 tokens; distinct by text",
		Assume: []string{"termination is restated as bounded progress (hard watchdog 120 s per batch, cases take milliseconds)", "a goroutine counts as started on behalf of the call if it was created by badwolf code after the pre-call snapshot"},
		Floor:  500,
		Phases: func(tier string, seed int64) []rt.Phase {
			maxLen, g, m, rn, rc, itc, trn, sn := 2, 3000, 3000, 2000, 240, 40, 4, 4000
			conc := 24
			if tier == "thorough" {
				maxLen, g, m, rn, rc, itc, trn, sn = 3, 50000, 50000, 50000, 3000, 600, 60, 40000
				conc = 120
			}
			kinds := gram.AllKinds()
			per := 60
			return []rt.Phase{
				{Name: "tokens", N: len(kinds), Exhaustive: true, Run: func(i int, r *rt.Rec) { c08Tokens(r, kinds[i], maxLen) }},
				{Name: "generated", N: g / per, Run: func(i int, r *rt.Rec) { c08Generated(r, gen.Rng(seed, "c08g", i), per, false) }},
				{Name: "mutated", N: m / per, Run: func(i int, r *rt.Rec) { c08Generated(r, gen.Rng(seed, "c08m", i), per, true) }},
				{Name: "runtime-typed", N: 16, Run: func(i int, r *rt.Rec) { c08RuntimeTyped(r, gen.Rng(seed, "c08t", i), i, 16, itc) }},
				{Name: "sentences", N: 16, Run: func(i int, r *rt.Rec) { c08Sentences(r, gen.Rng(seed, "c08s", i), sn/16) }},
				{Name: "truncations", N: 16, Run: func(i int, r *rt.Rec) { c08Truncations(r, gen.Rng(seed, "c08u", i), trn) }},
				{Name: "concurrent", N: 4, Run: func(i int, r *rt.Rec) { c08Concurrent(r, gen.Rng(seed, "c08c", i), 1+i%2, conc) }},
				{Name: "concurrent-race", N: 2, Race: true, Run: func(i int, r *rt.Rec) { c08Concurrent(r, gen.Rng(seed, "c08cr", i), 1+i%2, conc/4) }},
				{Name: "single-processor", N: rc / per, Procs: 1, Run: func(i int, r *rt.Rec) { c08Generated(r, gen.Rng(seed, "c08p", i), per, i%4 == 3) }},
				{Name: "random", N: rn / per, Run: func(i int, r *rt.Rec) { c08Random(r, gen.Rng(seed, "c08r", i), per) }},
				{Name: "race-sample", N: rc / per, Race: true, Run: func(i int, r *rt.Rec) { c08Generated(r, gen.Rng(seed, "c08x", i), per, i%2 == 1) }},
			}
		},
	})
}
