package checks

import (
	"bytes"
	"context"
	"fmt"
	"math/rand"
	"sort"
	"strings"
	"time"

	"bwverif/cv"
	"bwverif/gen"
	"bwverif/rt"

	bwio "github.com/google/badwolf/io"
	"github.com/google/badwolf/storage"
	"github.com/google/badwolf/storage/memory"
	"github.com/google/badwolf/triple"
	"github.com/google/badwolf/triple/literal"
	"github.com/google/badwolf/triple/node"
	"github.com/google/badwolf/triple/predicate"
)

func predOffset(p *predicate.Predicate) (int, bool) {
	ta, err := p.TimeAnchor()
	if err != nil || ta == nil {
		return 0, false
	}
	_, off := ta.Zone()
	return off, true
}

// rtNode / rtPred / rtLit / rtTriple perform one round trip and report.
func rtNode(r *rt.Rec, n *node.Node) {
	s := n.String()
	r.Note("node " + s)
	r.Eval(1)
	cls := "type:" + features(n.Type().String()) + ",id:" + features(n.ID().String())
	n2, err := node.Parse(s)
	if err != nil {
		r.Violation("roundtrip/node/parse-error/"+cls, "node.Parse rejects a printed node: "+err.Error(), s)
		return
	}
	if cv.Node(n2) != cv.Node(n) {
		r.Violation("roundtrip/node/different-value/"+cls, fmt.Sprintf("parsed node %s differs from %s", cv.Node(n2), cv.Node(n)), s)
		return
	}
	if n2.String() != s {
		r.Violation("roundtrip/node/reprint/"+cls, "re-printed node differs: "+n2.String(), s)
	}
}

func rtPred(r *rt.Rec, p *predicate.Predicate) {
	s := p.String()
	r.Note("predicate " + s)
	r.Eval(1)
	cls := "id:" + features(string(p.ID()))
	p2, err := predicate.Parse(s)
	if err != nil {
		r.Violation("roundtrip/predicate/parse-error/"+cls, "predicate.Parse rejects a printed predicate: "+err.Error(), s)
		return
	}
	if cv.Pred(p2) != cv.Pred(p) {
		r.Violation("roundtrip/predicate/different-value/"+cls, fmt.Sprintf("parsed predicate %s differs from %s", cv.Pred(p2), cv.Pred(p)), s)
		return
	}
	o1, ok1 := predOffset(p)
	o2, ok2 := predOffset(p2)
	if ok1 != ok2 || o1 != o2 {
		r.Violation("roundtrip/predicate/zone-offset/"+cls, fmt.Sprintf("zone offset %d became %d", o1, o2), s)
		return
	}
	if p2.String() != s {
		r.Violation("roundtrip/predicate/reprint/"+cls, "re-printed predicate differs: "+p2.String(), s)
	}
}

func litClass(l *literal.Literal) string {
	switch v := l.Interface().(type) {
	case string:
		return "text:" + features(v)
	case float64:
		_ = v
		return "float64"
	}
	return l.Type().String()
}

func rtLit(r *rt.Rec, l *literal.Literal) {
	s := l.String()
	r.Note("literal " + s)
	r.Eval(1)
	cls := litClass(l)
	l2, err := literal.DefaultBuilder().Parse(s)
	if err != nil {
		r.Violation("roundtrip/literal/parse-error/"+cls, "literal Parse rejects a printed literal: "+err.Error(), s)
		return
	}
	if l2 == nil {
		r.Violation("roundtrip/literal/nil-value/"+cls, "literal Parse returned (nil, nil) for a printed literal", s)
		return
	}
	if cv.Lit(l2) != cv.Lit(l) {
		r.Violation("roundtrip/literal/different-value/"+cls, fmt.Sprintf("parsed literal %s differs from %s", cv.Lit(l2), cv.Lit(l)), s)
		return
	}
	if l2.String() != s {
		r.Violation("roundtrip/literal/reprint/"+cls, "re-printed literal differs: "+l2.String(), s)
	}
}

func tripleClass(t *triple.Triple) string {
	c := "s:" + features(t.Subject().ID().String()) + ",p:" + features(string(t.Predicate().ID()))
	o := t.Object()
	if l, err := o.Literal(); err == nil {
		c += ",o:" + litClass(l)
	} else if p, err := o.Predicate(); err == nil {
		c += ",o:pred:" + features(string(p.ID()))
	} else if n, err := o.Node(); err == nil {
		c += ",o:node:" + features(n.ID().String())
	}
	return c
}

func rtTriple(r *rt.Rec, t *triple.Triple) {
	s := t.String()
	r.Note("triple " + s)
	r.Eval(1)
	cls := tripleClass(t)
	t2, err := triple.Parse(s, literal.DefaultBuilder())
	if err != nil {
		r.Violation("roundtrip/triple/parse-error/"+cls, "triple.Parse rejects a printed triple: "+err.Error(), s)
		return
	}
	if cv.Triple(t2) != cv.Triple(t) {
		r.Violation("roundtrip/triple/different-value/"+cls, fmt.Sprintf("parsed triple %s differs from %s", cv.Show(cv.Triple(t2)), cv.Show(cv.Triple(t))), s)
		return
	}
	if t2.String() != s {
		r.Violation("roundtrip/triple/reprint/"+cls, "re-printed triple differs: "+t2.String(), s)
	}
	// objects on their own
	os := t.Object().String()
	o2, err := triple.ParseObject(os, literal.DefaultBuilder())
	if err != nil {
		r.Violation("roundtrip/object/parse-error/"+cls, "triple.ParseObject rejects a printed object: "+err.Error(), os)
		return
	}
	if cv.Obj(o2) != cv.Obj(t.Object()) {
		r.Violation("roundtrip/object/different-value/"+cls, fmt.Sprintf("parsed object %s differs from %s", cv.Obj(o2), cv.Obj(t.Object())), os)
	}
}

func listGraph(ctx context.Context, g storage.Graph) ([]*triple.Triple, error) {
	ch := make(chan *triple.Triple, 64)
	var err error
	done := make(chan struct{})
	go func() {
		err = g.Triples(ctx, storage.DefaultLookup, ch)
		close(done)
	}()
	var res []*triple.Triple
	for t := range ch {
		res = append(res, t)
	}
	<-done
	return res, err
}

func canonSet(ts []*triple.Triple) []string {
	var res []string
	for _, t := range ts {
		res = append(res, cv.Triple(t))
	}
	sort.Strings(res)
	return res
}

func rtGraph(r *rt.Rec, ts []*triple.Triple, tag string) {
	ctx := context.Background()
	st := memory.NewStore()
	g, _ := st.NewGraph(ctx, "?a")
	if err := g.AddTriples(ctx, ts); err != nil {
		r.Violation("graph/add-error", err.Error(), nil)
		return
	}
	stored, _ := listGraph(ctx, g)
	want := cv.Dedup(canonSet(stored))
	var buf bytes.Buffer
	r.Note("graph write " + tag)
	n, err := bwio.WriteGraph(ctx, &buf, g)
	r.Eval(1)
	if err != nil {
		r.Violation("graph/write-error", err.Error(), nil)
		return
	}
	text := buf.String()
	if n != len(stored) {
		r.Violation("graph/write-count", fmt.Sprintf("WriteGraph reported %d triples, graph holds %d", n, len(stored)), text)
	}
	g2, _ := st.NewGraph(ctx, "?b")
	r.Note("graph read " + tag + ": " + trim(text, 400))
	m, err := bwio.ReadIntoGraph(ctx, g2, strings.NewReader(text), literal.DefaultBuilder())
	cls := ""
	if err != nil || m != len(stored) {
		// classify by the first triple that does not round-trip on its own
		for _, t := range stored {
			t2, e := triple.Parse(t.String(), literal.DefaultBuilder())
			if e != nil || cv.Triple(t2) != cv.Triple(t) {
				cls = tripleClass(t)
				break
			}
		}
	}
	if err != nil {
		r.Violation("graph/read-error/"+cls, "ReadIntoGraph failed on WriteGraph output: "+err.Error(), text)
		return
	}
	if m != len(stored) {
		r.Violation("graph/read-count/"+cls, fmt.Sprintf("ReadIntoGraph reported %d triples, expected %d", m, len(stored)), text)
	}
	back, _ := listGraph(ctx, g2)
	got := canonSet(back)
	a, b := cv.MultisetDiff(want, got)
	if len(a) > 0 || len(b) > 0 {
		if cls == "" && len(a) > 0 {
			cls = "set-diff"
		}
		r.Violation("graph/different-set/"+cls, fmt.Sprintf("re-read graph differs: missing %d, extra %d", len(a), len(b)),
			map[string]interface{}{"text": text, "missing": showAll(a, 3), "extra": showAll(b, 3)})
	}
}

func showAll(xs []string, n int) []string {
	var res []string
	for i, x := range xs {
		if i >= n {
			break
		}
		res = append(res, cv.Show(x))
	}
	return res
}

func init() {
	register(&rt.Check{
		ID:    "C05",
		Level: "exploration",
		Rule: "values generated directly inside the documented domain (node types/ids, predicate ids without whitespace biased to quotes, brackets, backslashes, '\"@[', '^^', non-ASCII; anchors 1700-2200 and years 1/9999, zones -12:00..+14:00 in minutes, 0-9 fractional digits; bool/int64 full range/float64 incl. -0, +-Inf, subnormals/text/blob; predicate objects) and graphs of 0-40 such triples; " +
			"monitor: Parse(String(v)) equal components (anchor instant and offset) and String stable, WriteGraph->ReadIntoGraph same canonical set and counts; non-trivial = printed form contains delimiter-like substrings, non-UTC zone, sub-second digits or an extreme number, distinct by printed form",
		Assume: []string{"value identity is taken from accessors (cv package), not from UUID()/String()", "NaN is outside the claim (NaN != NaN)", "text literals inside graph files exclude CR/LF (line-oriented format)"},
		Floor:  2000,
		Phases: func(tier string, seed int64) []rt.Phase {
			per, graphs := 1250, 500
			if tier == "thorough" {
				per, graphs = 31250, 5000
			}
			return []rt.Phase{
				{Name: "values", N: 16, Run: func(i int, r *rt.Rec) { c05Values(r, gen.Rng(seed, "c05v", i), per) }},
				{Name: "graphs", N: 16, Run: func(i int, r *rt.Rec) { c05Graphs(r, gen.Rng(seed, "c05g", i), graphs/16+1) }},
			}
		},
	})
}

func c05Values(r *rt.Rec, rng *rand.Rand, per int) {
	nt := func(printed string) {
		if gen.Interesting(printed) {
			r.Nontrivial(printed)
		}
	}
	for k := 0; k < per; k++ {
		n := gen.HNode(rng)
		if !guard(r, "node-roundtrip", n.String(), func() { rtNode(r, n) }) {
			nt(n.String())
		}
		p := gen.HPred(rng)
		if !guard(r, "predicate-roundtrip", p.String(), func() { rtPred(r, p) }) {
			nt(p.String())
		}
		l := gen.HLit(rng, false)
		if !guard(r, "literal-roundtrip", l.String(), func() { rtLit(r, l) }) {
			nt(l.String())
		}
		t := gen.HTriple(rng, false)
		if !guard(r, "triple-roundtrip", t.String(), func() { rtTriple(r, t) }) {
			nt(t.String())
		}
		if k < 2 {
			r.Sample(map[string]string{"node": n.String(), "predicate": p.String(), "literal": l.String(), "triple": t.String()})
		}
	}
	// deterministic edge values
	for _, a := range []time.Time{
		time.Date(2016, 2, 29, 23, 59, 59, 999999999, time.FixedZone("", 14*3600)),
		time.Date(1, 1, 1, 0, 0, 0, 0, time.UTC),
		time.Date(9999, 12, 31, 23, 59, 59, 999999999, time.UTC),
		time.Date(2000, 1, 1, 0, 0, 0, 100, time.FixedZone("", -(12*3600))),
		time.Date(1969, 12, 31, 23, 59, 59, 1, time.FixedZone("", 60)),
	} {
		p := gen.MustTemp("p", a)
		guard(r, "predicate-roundtrip", p.String(), func() { rtPred(r, p) })
	}
}

func c05Graphs(r *rt.Rec, rng *rand.Rand, n int) {
	for k := 0; k < n; k++ {
		sz := rng.Intn(41)
		if k%8 == 7 {
			// a graph whose text is much larger than any reader buffer
			sz = 100 + rng.Intn(400)
		}
		if k%32 == 31 {
			// more triples than any plausible batch size, also exact multiples
			sz = []int{1024, 1030, 2000, 2048, 1000 + rng.Intn(1200)}[rng.Intn(5)]
		}
		var ts []*triple.Triple
		for i := 0; i < sz; i++ {
			ts = append(ts, gen.HTriple(rng, true))
		}
		if k%4 == 3 && sz > 0 {
			// lines longer than 4 KiB and longer than 64 KiB: one long text, one long
			// id (a printed triple is one line whatever its length)
			long := strings.Repeat("lorem ipsum ", 350+rng.Intn(100))
			ts = append(ts, gen.MustTriple(gen.VNodes[0], gen.MustImm("long"), triple.NewLiteralObject(gen.MustLit(literal.Text, long))))
			ts = append(ts, gen.MustTriple(gen.MustNode("/u", strings.Repeat("n", 4090+rng.Intn(20))), gen.MustImm("p"), triple.NewNodeObject(gen.VNodes[1])))
			if k%16 == 15 {
				ts = append(ts, gen.MustTriple(gen.VNodes[2], gen.MustImm("huge"), triple.NewLiteralObject(gen.MustLit(literal.Text, strings.Repeat("x", 70000)))))
			}
			rng.Shuffle(len(ts), func(a, b int) { ts[a], ts[b] = ts[b], ts[a] })
		}
		tag := fmt.Sprintf("#%d size=%d", k, sz)
		if !guard(r, "graph-roundtrip", tag, func() { rtGraph(r, ts, tag) }) && sz > 1 {
			h := ""
			for _, t := range ts {
				h += t.String() + "\n"
			}
			r.Nontrivial(h)
		}
		if k == 0 && sz > 0 {
			r.Sample(map[string]interface{}{"graph_size": sz, "first_triple": ts[0].String()})
		}
	}
}
