package checks

import (
	"fmt"
	"math/rand"
	"sort"
	"strings"

	"bwverif/gram"
	"bwverif/rt"

	"github.com/google/badwolf/bql/grammar"
	"github.com/google/badwolf/bql/lexer"
	"github.com/google/badwolf/bql/semantic"
)

// parseWithProbes parses text with the real parser over a private copy of
// BQL() whose non-empty clauses carry ProcessStart probes.
func parseWithProbes(text string) (fired []gram.Fire, err error) {
	g := grammar.BQL()
	for sym, clauses := range *g {
		for ai, c := range clauses {
			s, a := string(sym), ai
			var hook semantic.ClauseHook
			hook = func(*semantic.Statement, semantic.Symbol) (semantic.ClauseHook, error) {
				fired = append(fired, gram.Fire{Rule: s, Alt: a})
				return hook, nil
			}
			c.ProcessStart = hook
		}
	}
	p, perr := grammar.NewParser(g)
	if perr != nil {
		return nil, fmt.Errorf("NewParser: %v", perr)
	}
	err = p.Parse(grammar.NewLLk(text, 1), &semantic.Statement{})
	return fired, err
}

func fireMultiset(fs []gram.Fire, g gram.G, nonEmptyOnly bool) []string {
	var res []string
	for _, f := range fs {
		if nonEmptyOnly && len(g[f.Rule][f.Alt]) == 0 {
			continue
		}
		res = append(res, fmt.Sprintf("%s#%d", f.Rule, f.Alt))
	}
	sort.Strings(res)
	return res
}

func init() {
	register(&rt.Check{
		ID:    "C17",
		Level: "exploration",
		Rule: "the live tables of grammar.BQL() and grammar.SemanticBQL() are walked completely (every rule, every pair of alternatives); per alternative a witness statement is derived, lexed and parsed by the real parser with ProcessStart probes; " +
			"a case is one (rule, alternative) of a rule with >=2 alternatives, distinct by (rule, alternative); thorough adds random derivations per alternative",
		Assume: []string{"Element.Symbol()==\"\" identifies token elements", "the probes observe Parser.consume's choice because ProcessStart is invoked by expect() for the chosen non-empty clause"},
		Floor:  50,
		Phases: func(tier string, seed int64) []rt.Phase {
			extra := 0
			if tier == "thorough" {
				extra = 200
			}
			return []rt.Phase{
				{Name: "table", N: 1, Workers: 1, Exhaustive: true, Run: c17Table},
				{Name: "witness", N: 1, Workers: 1, Exhaustive: true, Run: func(i int, r *rt.Rec) { c17Witness(r, seed, extra) }},
			}
		},
	})
}

func c17Table(_ int, r *rt.Rec) {
	plain := gram.Load(grammar.BQL())
	sem := gram.Load(grammar.SemanticBQL())
	ml, _ := plain.MinLens()
	reach, _ := plain.Reachable()
	nAlts, nEmpty := 0, 0
	for _, rule := range plain.Rules() {
		alts := plain[rule]
		r.Eval(1)
		firsts := map[lexer.TokenType]int{}
		empties := 0
		for ai, alt := range alts {
			nAlts++
			if len(alt) == 0 {
				empties++
				nEmpty++
				if ai != len(alts)-1 {
					r.Violation("table/empty-not-last/"+rule, fmt.Sprintf("rule %s: empty alternative %d is not the last one tried", rule, ai), nil)
				}
				continue
			}
			if alt[0].Sym != "" {
				r.Violation("table/first-not-token/"+rule, fmt.Sprintf("rule %s alt %d starts with symbol %s", rule, ai, alt[0].Sym), nil)
				continue
			}
			if prev, ok := firsts[alt[0].Tok]; ok {
				r.Violation("table/first-clash/"+rule, fmt.Sprintf("rule %s: alternatives %d and %d both start with %s", rule, prev, ai, alt[0].Tok), nil)
			}
			firsts[alt[0].Tok] = ai
			for _, e := range alt {
				if e.Sym != "" {
					if _, ok := plain[e.Sym]; !ok {
						r.Violation("table/undefined/"+e.Sym, fmt.Sprintf("rule %s alt %d references undefined symbol %s", rule, ai, e.Sym), nil)
					}
				}
			}
		}
		// pairs of alternatives checked
		r.Eval(len(alts) * (len(alts) - 1) / 2)
		if empties > 1 {
			r.Violation("table/many-empty/"+rule, fmt.Sprintf("rule %s has %d empty alternatives", rule, empties), nil)
		}
		if !reach[rule] {
			r.Violation("table/unreachable/"+rule, fmt.Sprintf("rule %s is not reachable from START", rule), nil)
		}
		if ml[rule] < 0 {
			r.Violation("table/unproductive/"+rule, fmt.Sprintf("rule %s derives no finite token string", rule), nil)
		}
		// every alternative must itself be productive
		for ai, alt := range alts {
			for _, e := range alt {
				if e.Sym != "" && ml[e.Sym] < 0 {
					r.Violation("table/unproductive-alt/"+rule, fmt.Sprintf("rule %s alt %d uses unproductive symbol %s", rule, ai, e.Sym), nil)
				}
			}
		}
	}
	// semantic grammar has exactly the same rules / alternatives / elements
	if len(plain) != len(sem) {
		r.Violation("table/semantic-rule-count", fmt.Sprintf("BQL has %d rules, SemanticBQL %d", len(plain), len(sem)), nil)
	}
	for _, rule := range plain.Rules() {
		sa, ok := sem[rule]
		if !ok {
			r.Violation("table/semantic-missing/"+rule, "rule missing in SemanticBQL: "+rule, nil)
			continue
		}
		pa := plain[rule]
		if len(sa) != len(pa) {
			r.Violation("table/semantic-alt-count/"+rule, fmt.Sprintf("rule %s: %d vs %d alternatives", rule, len(pa), len(sa)), nil)
			continue
		}
		for ai := range pa {
			if fmt.Sprint(pa[ai]) != fmt.Sprint(sa[ai]) {
				r.Violation("table/semantic-elements/"+rule, fmt.Sprintf("rule %s alt %d differs: %v vs %v", rule, ai, pa[ai], sa[ai]), nil)
			}
		}
	}
	for rule := range sem {
		if _, ok := plain[rule]; !ok {
			r.Violation("table/semantic-extra/"+rule, "rule only in SemanticBQL: "+rule, nil)
		}
	}
	// NewParser must accept both tables
	if _, err := grammar.NewParser(grammar.BQL()); err != nil {
		r.Violation("table/newparser", "NewParser(BQL()) failed: "+err.Error(), nil)
	}
	if _, err := grammar.NewParser(grammar.SemanticBQL()); err != nil {
		r.Violation("table/newparser-semantic", "NewParser(SemanticBQL()) failed: "+err.Error(), nil)
	}
	r.Count("rules", len(plain))
	r.Count("alternatives", nAlts)
	r.Count("empty_alternatives", nEmpty)
	r.Sample(map[string]interface{}{"rule": "START", "alternatives": len(plain["START"])})
}

func c17Witness(r *rt.Rec, seed int64, extra int) {
	g := gram.Load(grammar.BQL())
	_, ma := g.MinLens()
	reach, par := g.Reachable()
	for sym, a := range ma {
		if a < 0 {
			_ = sym
			return // reported by the table phase
		}
	}
	rng := rand.New(rand.NewSource(seed*7919 + 17))
	check := func(rule string, ai int, tree *gram.Node, must bool) bool {
		kinds := g.Tokens(tree)
		text := gram.Render(kinds, gram.DefaultChooser(nil))
		r.Note(text)
		r.Eval(1)
		toks, ok := gram.Lex(text, 0)
		if !ok {
			r.Violation("witness/lexer-hang", "lexer did not finish on witness", text)
			return false
		}
		lk := gram.Kinds(toks)
		if !gram.SameKinds(lk, kinds) {
			// the lexer produces some kinds only in context (TIME after a
			// comparison or BEFORE/AFTER): this derivation is not realisable as
			// text; another witness is searched for.
			r.Count("witness_unrealisable", 1)
			return false
		}
		accept, refFired := g.Recognize(lk)
		fired, err := parseWithProbes(text)
		if accept != (err == nil) {
			r.Violation(fmt.Sprintf("witness/accept-mismatch/%s#%d", rule, ai), fmt.Sprintf("reference recogniser accept=%v, parser err=%v", accept, err), text)
			return false
		}
		if !accept {
			// a derivation the predictive parser cannot follow (an empty
			// alternative was derived where the next token starts a non-empty one):
			// parser and reference agree in rejecting it, which is what C18 allows;
			// it is no witness, another derivation is searched for
			_ = must
			r.Count("witness_not_predictively_parseable", 1)
			return false
		}
		want := fireMultiset(refFired, g, true)
		got := fireMultiset(fired, g, true)
		if strings.Join(want, ",") != strings.Join(got, ",") {
			r.Violation(fmt.Sprintf("witness/probe-mismatch/%s#%d", rule, ai), fmt.Sprintf("probes fired %v, reference predicts %v", got, want), text)
			return false
		}
		// the derivation itself must be what the predictive parser did
		hit := false
		for _, f := range refFired {
			if f.Rule == rule && f.Alt == ai {
				hit = true
			}
		}
		if hit && len(g[rule][ai]) > 0 {
			h2 := false
			for _, f := range fired {
				if f.Rule == rule && f.Alt == ai {
					h2 = true
				}
			}
			hit = h2
		}
		return hit
	}
	for _, rule := range g.Rules() {
		if !reach[rule] {
			continue
		}
		for ai := range g[rule] {
			tree := g.WitnessTree(rule, ai, ma, par)
			ok := check(rule, ai, tree, true)
			// the same alternative under every parent and grandparent occurrence
			// of its rule (a token kind may only be lexed in some contexts)
			if !ok {
				for _, t := range g.WitnessTreesInContexts(rule, ai, ma, par, reach) {
					if ok = check(rule, ai, t, false); ok {
						r.Count("alternatives_witnessed_in_another_context", 1)
						break
					}
				}
			}
			tries := 0
			for !ok && tries < 1000 {
				// other contexts: random derivation that contains the alternative
				t := g.RandomTree(rng, "START", 0, 6, ma, 0.5)
				found := false
				for _, f := range g.Fires(t) {
					if f.Rule == rule && f.Alt == ai {
						found = true
					}
				}
				tries++
				if !found {
					continue
				}
				ok = check(rule, ai, t, false)
			}
			if !ok {
				r.Violation(fmt.Sprintf("witness/not-live/%s#%d", rule, ai), fmt.Sprintf("no statement found that the parser accepts by taking alternative %d of %s", ai, rule), gram.Render(g.Tokens(tree), nil))
			} else {
				r.Count("alternatives_witnessed", 1)
				if len(g[rule]) >= 2 {
					r.NontrivialDistinct(1)
				}
				if rule == "OBJECT" || rule == "START" {
					r.Sample(map[string]interface{}{"rule": rule, "alt": ai, "witness": gram.Render(g.Tokens(tree), nil)})
				}
			}
		}
	}
	// random derivations: probes must equal the reference prediction whenever
	// the real lexer reproduces the intended kinds
	for i := 0; i < extra*len(g)/4+200; i++ {
		t := g.RandomTree(rng, "START", 0, 5+rng.Intn(4), ma, 0.3+0.4*rng.Float64())
		kinds := g.Tokens(t)
		text := gram.Render(kinds, gram.DefaultChooser(rng))
		r.Note(text)
		toks, ok := gram.Lex(text, 0)
		if !ok || !gram.SameKinds(gram.Kinds(toks), kinds) {
			r.Count("random_unrealisable", 1)
			continue
		}
		r.Eval(1)
		accept, refFired := g.Recognize(gram.Kinds(toks))
		fired, err := parseWithProbes(text)
		if accept != (err == nil) {
			r.Violation("random/accept-mismatch", fmt.Sprintf("reference accept=%v parser err=%v", accept, err), text)
			continue
		}
		if accept {
			want, got := fireMultiset(refFired, g, true), fireMultiset(fired, g, true)
			if strings.Join(want, ",") != strings.Join(got, ",") {
				r.Violation("random/probe-mismatch", fmt.Sprintf("probes %v vs reference %v", got, want), text)
			}
			r.Count("random_accepted", 1)
		}
	}
}
