package checks

import (
	"context"
	"fmt"
	"math/rand"
	"sort"
	"strings"

	"bwverif/cv"
	"bwverif/gen"
	"bwverif/ref"
	"bwverif/rt"

	"github.com/google/badwolf/storage"
	"github.com/google/badwolf/triple"
)

var graphNames = []string{"?g1", "?g2", "?g3"}

// storeOp is one step of a store history.
type storeOp struct {
	Kind  string // new, get, drop, names, add, remove
	Graph string
	Batch []int // indices into the universe; negative = respelled (-(i+1))
}

func (o storeOp) String() string {
	if o.Kind == "add" || o.Kind == "remove" {
		return fmt.Sprintf("%s(%s,%v)", o.Kind, o.Graph, o.Batch)
	}
	if o.Kind == "names" {
		return "names"
	}
	return fmt.Sprintf("%s(%s)", o.Kind, o.Graph)
}

func batchTriples(univ []*triple.Triple, b []int) []*triple.Triple {
	var ts []*triple.Triple
	for _, i := range b {
		if i < 0 {
			ts = append(ts, gen.Respell(univ[-(i+1)]))
		} else {
			ts = append(ts, univ[i])
		}
	}
	return ts
}

// genHistory draws a random history over the three graph names.
func genHistory(rng *rand.Rand, steps, usize int) []storeOp {
	var ops []storeOp
	for i := 0; i < steps; i++ {
		g := graphNames[rng.Intn(len(graphNames))]
		x := rng.Intn(100)
		switch {
		case i < 2 || x < 10:
			ops = append(ops, storeOp{Kind: "new", Graph: g})
		case x < 15:
			ops = append(ops, storeOp{Kind: "drop", Graph: g})
		case x < 19:
			ops = append(ops, storeOp{Kind: "get", Graph: g})
		case x < 22:
			ops = append(ops, storeOp{Kind: "names"})
		default:
			kind := "add"
			if x >= 65 {
				kind = "remove"
			}
			n := rng.Intn(5)
			if rng.Intn(8) == 0 {
				n = 0 // empty batch
			}
			var b []int
			for k := 0; k < n; k++ {
				j := rng.Intn(usize)
				if rng.Intn(6) == 0 {
					j = -(j + 1)
				}
				b = append(b, j)
				if rng.Intn(6) == 0 {
					b = append(b, j) // duplicate inside the batch
				}
			}
			ops = append(ops, storeOp{Kind: kind, Graph: g, Batch: b})
		}
	}
	return ops
}

func histString(ops []storeOp) string {
	parts := make([]string, len(ops))
	for i, o := range ops {
		parts[i] = o.String()
	}
	return strings.Join(parts, " ")
}

// applyOp applies op to the real store and to the model, and compares the
// outcome (error / no error) of the step itself.
func applyOp(ctx context.Context, r *rt.Rec, st storage.Store, m ref.Store, univ []*triple.Triple, op storeOp, hist func() interface{}) {
	switch op.Kind {
	case "new":
		_, err := st.NewGraph(ctx, op.Graph)
		_, exists := m[op.Graph]
		if exists != (err != nil) {
			r.Violation("store/new-graph/"+boolWord(exists, "existing-accepted", "fresh-rejected"), fmt.Sprintf("NewGraph(%s): exists=%v err=%v", op.Graph, exists, err), hist())
		}
		if !exists {
			m[op.Graph] = ref.Graph{}
		}
	case "get":
		_, err := st.Graph(ctx, op.Graph)
		_, exists := m[op.Graph]
		if exists == (err != nil) {
			r.Violation("store/get-graph/"+boolWord(exists, "existing-rejected", "missing-accepted"), fmt.Sprintf("Graph(%s): exists=%v err=%v", op.Graph, exists, err), hist())
		}
	case "drop":
		err := st.DeleteGraph(ctx, op.Graph)
		_, exists := m[op.Graph]
		if exists == (err != nil) {
			r.Violation("store/drop-graph/"+boolWord(exists, "existing-rejected", "missing-accepted"), fmt.Sprintf("DeleteGraph(%s): exists=%v err=%v", op.Graph, exists, err), hist())
		}
		delete(m, op.Graph)
	case "names":
		// observed by observeStore
	case "add", "remove":
		mg, exists := m[op.Graph]
		g, err := st.Graph(ctx, op.Graph)
		if exists == (err != nil) {
			r.Violation("store/get-graph/"+boolWord(exists, "existing-rejected", "missing-accepted"), fmt.Sprintf("Graph(%s): exists=%v err=%v", op.Graph, exists, err), hist())
			return
		}
		if !exists {
			return
		}
		ts := batchTriples(univ, op.Batch)
		if op.Kind == "add" {
			if err := g.AddTriples(ctx, ts); err != nil {
				r.Violation("graph/add-error", "AddTriples failed: "+err.Error(), hist())
			}
			mg.Add(ts)
		} else {
			if err := g.RemoveTriples(ctx, ts); err != nil {
				r.Violation("graph/remove-error", "RemoveTriples failed: "+err.Error(), hist())
			}
			mg.Remove(ts)
		}
	}
}

func boolWord(b bool, t, f string) string {
	if b {
		return t
	}
	return f
}

func storeNames(ctx context.Context, st storage.Store) ([]string, error) {
	ch := make(chan string, 16)
	var err error
	done := make(chan struct{})
	go func() { err = st.GraphNames(ctx, ch); close(done) }()
	var res []string
	for n := range ch {
		res = append(res, n)
	}
	<-done
	sort.Strings(res)
	return res, err
}

// observeStore compares everything C01 names with the model: graph names,
// Graph() ok/err for every vocabulary name, Exist of every universe triple in
// every live graph, and the full listing of every live graph as a multiset.
func observeStore(ctx context.Context, r *rt.Rec, st storage.Store, m ref.Store, univ []*triple.Triple, hist func() interface{}) int {
	obs := 0
	names, err := storeNames(ctx, st)
	obs++
	if err != nil {
		r.Violation("store/names-error", "GraphNames failed: "+err.Error(), hist())
	}
	var want []string
	for n := range m {
		want = append(want, n)
	}
	sort.Strings(want)
	if strings.Join(names, ",") != strings.Join(want, ",") {
		r.Violation("store/names-differ", fmt.Sprintf("GraphNames=%v, created and not dropped=%v", names, want), hist())
	}
	for _, n := range graphNames {
		g, err := st.Graph(ctx, n)
		mg, exists := m[n]
		obs++
		if exists == (err != nil) {
			r.Violation("store/get-graph/"+boolWord(exists, "existing-rejected", "missing-accepted"), fmt.Sprintf("Graph(%s): exists=%v err=%v", n, exists, err), hist())
			continue
		}
		if !exists {
			continue
		}
		for _, t := range univ {
			tts := []*triple.Triple{t}
			if rs := gen.Respell(t); rs.String() != t.String() {
				tts = append(tts, rs)
			}
			for _, tt := range tts {
				ok, err := g.Exist(ctx, tt)
				_, in := mg[cv.Triple(tt)]
				obs++
				if err != nil {
					r.Violation("graph/exist-error", err.Error(), hist())
				} else if ok != in {
					r.Violation("graph/exist-"+boolWord(in, "missing", "phantom"), fmt.Sprintf("graph %s: Exist(%s)=%v but the model says %v", n, tt, ok, in), hist())
				}
			}
		}
		got, err := listGraph(ctx, g)
		obs++
		if err != nil {
			r.Violation("graph/listing-error", err.Error(), hist())
		}
		gs := canonSet(got)
		a, b := cv.MultisetDiff(mg.Canon(), gs)
		if len(a) > 0 || len(b) > 0 {
			mode := "missing"
			if len(a) == 0 {
				mode = "extra"
				if len(cv.Dedup(gs)) != len(gs) {
					mode = "duplicate"
				}
			}
			r.Violation("graph/listing-"+mode, fmt.Sprintf("graph %s: listing differs from the model: missing %v extra %v", n, showAll(a, 3), showAll(b, 3)), hist())
		}
	}
	return obs
}

// historyFeatures computes the C01 non-triviality rule: >=1 re-add, >=1 remove
// of an absent triple, >=1 overlap between batches and >=2 graphs touched.
func historyFeatures(ops []storeOp) bool {
	m := map[string]map[int]bool{}
	readd, rmAbsent, overlap := false, false, false
	touched := map[string]bool{}
	var prev map[int]bool
	norm := func(i int) int {
		if i < 0 {
			return -(i + 1)
		}
		return i
	}
	for _, o := range ops {
		switch o.Kind {
		case "new":
			if m[o.Graph] == nil {
				m[o.Graph] = map[int]bool{}
			}
		case "drop":
			delete(m, o.Graph)
		case "add", "remove":
			g := m[o.Graph]
			if g == nil {
				continue
			}
			touched[o.Graph] = true
			cur := map[int]bool{}
			for _, i := range o.Batch {
				i = norm(i)
				if prev != nil && prev[i] {
					overlap = true
				}
				cur[i] = true
				if o.Kind == "add" {
					if g[i] {
						readd = true
					}
					g[i] = true
				} else {
					if !g[i] {
						rmAbsent = true
					}
					delete(g, i)
				}
			}
			prev = cur
		}
	}
	return readd && rmAbsent && overlap && len(touched) >= 2
}
