package checks

import (
	"context"
	"fmt"
	"math/rand"
	"strings"
	"time"

	"bwverif/bq"
	"bwverif/fault"
	"bwverif/gen"
	"bwverif/rt"

	"github.com/google/badwolf/bql/table"
	"github.com/google/badwolf/storage"
	"github.com/google/badwolf/storage/memoization"
	"github.com/google/badwolf/triple"
)

var c20Data = func() bq.Data {
	d := gen.DenseDataSet(gen.Rng(777, "c20data", 0), 2, 14, true)
	d["?g3"] = nil
	return d
}()

// c20Corpus: statements that exercise every driver entry point.
func c20Corpus(rng *rand.Rand, extra int) []string {
	all := gen.AllTriples(c20Data)
	t := all[0]
	s, p, o := t.Subject().String(), t.Predicate().String(), t.Object().String()
	var nodeObj *triple.Triple
	for _, x := range all {
		if _, err := x.Object().Node(); err == nil {
			nodeObj = x
			break
		}
	}
	no := nodeObj.Object().String()
	c := []string{
		fmt.Sprintf("SELECT ?x FROM ?g1 WHERE { %s %s %s AS ?x };", s, p, o),                   // Exist
		fmt.Sprintf("SELECT ?o FROM ?g1, ?g2 WHERE { %s %s ?o };", s, p),                       // Objects
		fmt.Sprintf("SELECT ?p FROM ?g1 WHERE { %s ?p %s };", s, o),                            // PredicatesForSubjectAndObject
		fmt.Sprintf("SELECT ?s FROM ?g1, ?g2 WHERE { ?s %s %s };", p, o),                       // Subjects
		fmt.Sprintf("SELECT ?p, ?o FROM ?g1 WHERE { %s ?p ?o };", s),                           // TriplesForSubject
		fmt.Sprintf("SELECT ?s, ?o FROM ?g2, ?g1 WHERE { ?s %s ?o };", p),                      // TriplesForPredicate
		fmt.Sprintf("SELECT ?s, ?p FROM ?g1 WHERE { ?s ?p %s };", no),                          // TriplesForObject
		"SELECT ?s, ?p, ?o FROM ?g1, ?g2 WHERE { ?s ?p ?o };",                                  // Triples
		`SELECT ?s, ?t FROM ?g1 WHERE { ?s "p"@[?t] ?o };`,                                     // Triples + filtering
		"SELECT ?s, ?o2 FROM ?g1 WHERE { ?s ?p ?o . ?o ?p2 ?o2 };",                             // per-row specialisation
		"SELECT ?s, ?o2 FROM ?g1, ?g2 WHERE { ?s ?p ?o . OPTIONAL { ?o ?p2 ?o2 } };",           // optional, specialisation
		fmt.Sprintf("SELECT ?s FROM ?g1 WHERE { %s %s %s . ?s ?p ?o };", s, p, o),              // existence clause + fetch
		"SELECT ?s, count(?o) AS ?n FROM ?g1 WHERE { ?s ?p ?o } GROUP BY ?s ORDER BY ?n DESC;", // post-processing
		`SELECT ?s FROM ?g1 WHERE { ?s ?p ?o } LIMIT "2"^^type:int64;`,
		fmt.Sprintf("INSERT DATA INTO ?g3 { %s %s %s };", s, p, o),
		fmt.Sprintf("INSERT DATA INTO ?g1, ?g2, ?g3 { %s %s %s . /u<zz> \"p\"@[] /u<a> };", s, p, o),
		fmt.Sprintf("DELETE DATA FROM ?g1 { %s %s %s };", s, p, o),
		fmt.Sprintf("DELETE DATA FROM ?g2, ?g1 { %s %s %s };", s, p, o),
		"CREATE GRAPH ?n1;",
		"CREATE GRAPH ?n1, ?n2;",
		"DROP GRAPH ?g3;",
		"DROP GRAPH ?g3, ?g2;",
		"SHOW GRAPHS;",
		"SELECT ?s, ?p, ?o FROM ?g1 WHERE { ?s ?p ?o } LIMIT \"1\"^^type:int64;",
		"SELECT ?s, ?p, ?o FROM ?g1, ?g2 WHERE { ?s ?p ?o } LIMIT \"2\"^^type:int64;",
		"SELECT ?s, ?o FROM ?g1 WHERE { ?s \"p\"@[] ?o } LIMIT \"1\"^^type:int64;",
		"SELECT ?o FROM ?g2, ?g1 WHERE { /u<a> ?p ?o } LIMIT \"2\"^^type:int64;",
		"SELECT ?s, ?o FROM ?g1 WHERE { ?s \"p\"@[] ?o } ORDER BY ?o LIMIT \"1\"^^type:int64;",
		"CONSTRUCT { ?s \"c1\"@[] ?o } INTO ?g3 FROM ?g1 WHERE { ?s ?p ?o };",
		"CONSTRUCT { ?s \"c1\"@[] ?o ; \"c2\"@[] ?s } INTO ?g3, ?g2 FROM ?g1 WHERE { ?s \"p\"@[] ?o };",
		"CONSTRUCT { ?s \"c1\"@[?t] ?o } INTO ?g3 FROM ?g1, ?g2 WHERE { ?s \"p\"@[?t] ?o };",
		"DECONSTRUCT { ?s ?p ?o } IN ?g2 FROM ?g1 WHERE { ?s ?p ?o };",
		"DECONSTRUCT { ?s \"p\"@[] ?o } IN ?g1, ?g2 FROM ?g1 WHERE { ?s \"p\"@[] ?o };",
	}
	for i := 0; i < extra; i++ {
		switch rng.Intn(6) {
		case 0:
			c = append(c, gen.DataStmt(rng, []string{"insert", "delete"}[rng.Intn(2)], all).Text())
		case 1:
			st := gen.ConstructStmtMatching(rng, []string{"construct", "deconstruct"}[rng.Intn(2)], all)
			c = append(c, st.Text())
		default:
			q := gen.SelectAll(gen.MatchingPattern(rng, all, 1+rng.Intn(2)), gen.GraphVars[:1+rng.Intn(2)])
			if len(q.Vars) > 0 {
				c = append(c, q.Text())
			}
		}
	}
	return c
}

func streaming(method string) bool {
	switch method {
	case "Graph.AddTriples", "Graph.RemoveTriples", "Graph.Exist", "Store.Graph", "Store.NewGraph", "Store.DeleteGraph":
		return false
	}
	return true
}

func c20One(r *rt.Rec, text string, memo bool, chanSize, bulk int) {
	ctx := context.Background()
	mk := func(plan fault.Plan) (*fault.Store, storage.Store) {
		fs := fault.New(bq.NewStore(ctx, c20Data), plan)
		if memo {
			return fs, memoization.New(fs)
		}
		return fs, fs
	}
	variant := "direct"
	if memo {
		variant = "memoized"
	}
	// clean run: which driver calls does the statement make?
	fs, st := mk(fault.Plan{})
	r.Begin("[clean " + variant + "] " + text)
	var cleanErr error
	if guard(r, "execute-clean", text, func() { _, _, cleanErr = bq.Run(ctx, st, text, chanSize, bulk) }) {
		return
	}
	calls := fs.Calls()
	r.Count("driver_calls_observed", len(calls))
	if cleanErr != nil {
		// a statement that fails without faults is not part of the corpus
		r.Count("corpus_statement_fails_clean", 1)
		return
	}
	for _, c := range calls {
		r.Distinct("driver_methods", c.Method)
	}
	kind := strings.ToLower(firstWord(text))
	for k := 1; k <= len(calls); k++ {
		afters := []int{0}
		if streaming(calls[k-1].Method) {
			afters = []int{0, 1, 2}
		}
		if streaming(calls[k-1].Method) {
			afters = append(afters, -1) // deliver one element, close the channel, return the error late
		}
		if memo && streaming(calls[k-1].Method) && calls[k-1].Graph != "" {
			afters = append(afters, -3) // a write through the memoizer overlaps the failing lookup
		}
		if m := calls[k-1].Method; k == 1 || m == "Graph.AddTriples" || m == "Graph.RemoveTriples" {
			afters = append(afters, -2) // this call and every later one fail (the driver has gone away)
		}
		for _, after := range afters {
			plan := fault.Plan{K: k, After: after}
			if after == -1 {
				plan = fault.Plan{K: k, After: 1, Late: true}
			} else if after == -2 {
				plan = fault.Plan{From: k}
			} else if after == -3 {
				plan = fault.Plan{K: k, After: 1}
			}
			fs, st := mk(plan)
			if after == -3 {
				gname := calls[k-1].Graph
				fs.SetDuring(func() {
					if g, err := st.Graph(ctx, gname); err == nil {
						g.AddTriples(ctx, []*triple.Triple{gen.MustTriple(gen.AbsentNode, gen.MustImm("during"), triple.NewNodeObject(gen.AbsentNode))})
					}
				})
			}
			desc := fmt.Sprintf("[%s k=%d/%d %s after=%d late=%v from-here-on=%v write-during=%v chan=%d bulk=%d] %s", variant, k, len(calls), calls[k-1].Method, plan.After, plan.Late, plan.From > 0, after == -3, chanSize, bulk, text)
			r.Begin(desc)
			r.Eval(1)
			before := rt.Snapshot()
			var tbl *table.Table
			var err error
			start := time.Now()
			if guard(r, "execute-faulty/"+kind, desc, func() { tbl, _, err = bq.Run(ctx, st, text, chanSize, bulk) }) {
				continue
			}
			el := time.Since(start)
			fired := fs.Fired()
			w := func() map[string]interface{} {
				m := map[string]interface{}{"statement": text, "store": variant, "failing_call": k, "calls_in_clean_run": len(calls), "deliver_before_failing": plan.After, "late_return": plan.Late, "every_later_call_fails": plan.From > 0, "chan_size": chanSize, "bulk_size": bulk}
				if fired != nil {
					m["failed_method"] = fired.Method
					m["failed_graph"] = fired.Graph
					m["elements_delivered"] = fs.Delivered()
				}
				return m
			}
			if fired == nil {
				// the call order changed with scheduling and fewer calls were made
				r.Inconclusive(fmt.Sprintf("planned fault %d did not fire: %s", k, text))
				continue
			}
			cls := kind + "/" + fired.Method
			if err == nil {
				what := "success"
				if tbl == nil {
					what = "neither a table nor an error"
				} else {
					what = fmt.Sprintf("a table with %d rows and no error", tbl.NumRows())
				}
				r.Violation("fault-swallowed/"+cls, fmt.Sprintf("driver call %s failed (after %d elements) but executing the statement returned %s", fired.Method, fs.Delivered(), what), w())
			}
			if el > 20*time.Second {
				// bounded time is decided by the watchdog (all-blocked rule, hard
				// limit), not by a wall-clock threshold: only counted
				r.Count("slow_returns_over_20s", 1)
			}
			if left := rt.Leaked(before, 2*time.Second); len(left) > 0 {
				ww := w()
				ww["stack"] = trim(left[0].Stack, 1500)
				r.Violation("goroutine-leak/"+cls+"/"+rt.LeakClass(left[0]), fmt.Sprintf("%d goroutine(s) started for the statement are still alive after it returned", len(left)), ww)
			}
			if fired.N > 1 || fs.Delivered() > 0 {
				r.Nontrivial(desc)
			}
			r.Count("faults_fired", 1)
		}
	}
}

func c20Run(r *rt.Rec, part, parts int, seed int64, extra int, every int) {
	rng := gen.Rng(seed, "c20corpus", 0)
	corpus := c20Corpus(rng, extra)
	for i, text := range corpus {
		if i%parts != part || (every > 1 && (i/parts)%every != 0) {
			continue
		}
		for v := 0; v < 2; v++ {
			c20One(r, text, v == 1, []int{0, 1, 8}[i%3], []int{1, 1000, 2}[i%3])
		}
		if i < parts {
			r.Sample(map[string]interface{}{"statement": text})
		}
	}
}

func init() {
	register(&rt.Check{
		ID:    "C20",
		Level: "fault_enumeration",
		Rule: "a corpus of statements that exercises every driver entry point (Exist, each of the eight lookups behind simpleFetch, Triples with clause-level filtering, per-row specialisation, OPTIONAL, Graph resolution in Init, INSERT/DELETE into 1-3 graphs, CONSTRUCT/DECONSTRUCT with and without reification at bulk sizes 1/2/1000, CREATE/DROP, SHOW GRAPHS; thorough adds generated statements) run over a fault-injecting storage.Store/Graph written in the harness; per statement a clean run records its N driver calls, then every position k<=N x mode {fail before any element, fail after 1, after 2 elements, after 1 element with the error returned some time after the channel was closed (lookups), fail on write / Graph / Exist, this and every later call fail (from the first call and from every write), a write through the memoizer while the failing lookup is in flight (memoized variant)} is executed, directly and with the memoizer stacked in between; " +
			"oracle: if the planned fault fired, Execute returns an error (not a table, not (nil,nil)), returns within the watchdog, and no goroutine started for it survives; a fault that did not fire is inconclusive; non-trivial = the fault fired after an earlier successful call or after >=1 delivered element; distinct by (statement, store, k, mode)",
		Assume: []string{"the injecting wrapper behaves like a well-formed driver: it closes the channel exactly once and then returns the error", "bounded time = the per-case watchdog (all-blocked rule, 120 s hard)"},
		Floor:  200,
		Phases: func(tier string, seed int64) []rt.Phase {
			extra, raceEvery := 12, 3
			if tier == "thorough" {
				extra, raceEvery = 370, 1
			}
			return []rt.Phase{
				{Name: "faults", N: 16, Exhaustive: true, Run: func(i int, r *rt.Rec) { c20Run(r, i, 16, seed, extra, 1) }},
				{Name: "faults-race", N: 16, Race: true, Run: func(i int, r *rt.Rec) { c20Run(r, i, 16, seed, 0, raceEvery) }},
			}
		},
	})
}
