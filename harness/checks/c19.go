package checks

import (
	"context"
	"fmt"
	"math/rand"
	"sort"
	"strings"
	"sync"
	"time"

	"bwverif/cv"
	"bwverif/fault"
	"bwverif/gen"
	"bwverif/lin"
	"bwverif/ref"
	"bwverif/rt"

	"github.com/anishathalye/porcupine"
	"github.com/google/badwolf/bql/planner/filter"
	"github.com/google/badwolf/storage"
	"github.com/google/badwolf/storage/memoization"
	"github.com/google/badwolf/storage/memory"
	"github.com/google/badwolf/triple"
	"github.com/google/badwolf/triple/node"
	"github.com/google/badwolf/triple/predicate"
)

// ---------------------------------------------------------------------------
// (a) lockstep histories

func c19Options(rng *rand.Rand) *storage.LookupOptions {
	lo := &storage.LookupOptions{}
	ts := []*time.Time{nil, &gen.T1, &gen.T2, &gen.T3}
	switch rng.Intn(6) {
	case 0:
		return storage.DefaultLookup
	case 1:
		lo.LowerAnchor, lo.UpperAnchor = ts[rng.Intn(4)], ts[rng.Intn(4)]
	case 2:
		lo.LatestAnchor = true
	case 3:
		lo.FilterOptions = &filter.StorageOptions{Operation: []filter.Operation{filter.Latest, filter.IsImmutable, filter.IsTemporal}[rng.Intn(3)], Field: []filter.Field{filter.PredicateField, filter.ObjectField}[rng.Intn(2)]}
	}
	if rng.Intn(2) == 0 {
		lo.MaxElements = 1 + rng.Intn(3)
		lo.Offset = rng.Intn(4)
	}
	return lo
}

func c19Lockstep(r *rt.Rec, rng *rand.Rand, n, steps int) {
	ctx := context.Background()
	for h := 0; h < n; h++ {
		univ := gen.Universe(rng, 10)
		qs := allQueries(univ)
		plain := memory.NewStore()
		wrapped := memoization.New(memory.NewStore())
		pg, _ := plain.NewGraph(ctx, "?g")
		h0, _ := wrapped.NewGraph(ctx, "?g")
		handles := []storage.Graph{h0}
		for k := rng.Intn(3); k > 0; k-- {
			hk, err := wrapped.Graph(ctx, "?g")
			if err != nil {
				r.Violation("handle-error", err.Error(), nil)
				continue
			}
			handles = append(handles, hk)
		}
		var hist []string
		type readKey struct {
			q  string
			lo string
		}
		lastRead := map[string]int{} // read signature (without offset) -> step, for the NT rule
		repeatedAfterWrite, offsetPair := false, false
		lastWrite := -1
		// a small pool of reads so that repetitions happen
		type rd struct {
			q  ref.Query
			lo *storage.LookupOptions
		}
		var pool []rd
		for k := 0; k < 8; k++ {
			pool = append(pool, rd{qs[rng.Intn(len(qs))], c19Options(rng)})
		}
		// pairs whose windows differ only in the fraction of a second
		for k := 0; k < 2; k++ {
			b := pool[rng.Intn(len(pool))]
			lo := &storage.LookupOptions{}
			lo2 := &storage.LookupOptions{}
			whole, frac := gen.T3.Truncate(time.Second), gen.T3 // 23:59:59 and 23:59:59.5
			if k == 0 {
				lo.UpperAnchor, lo2.UpperAnchor = &whole, &frac
			} else {
				after := frac.Add(time.Nanosecond)
				lo.LowerAnchor, lo2.LowerAnchor = &frac, &after
			}
			pool = append(pool, rd{b.q, lo}, rd{b.q, lo2}, rd{ref.Query{Method: "Triples"}, lo}, rd{ref.Query{Method: "Triples"}, lo2})
		}
		// pairs differing only in Offset
		for k := 0; k < 3; k++ {
			b := pool[rng.Intn(len(pool))]
			lo := ref.CopyOptions(b.lo)
			if lo.MaxElements == 0 {
				lo.MaxElements = 1
			}
			lo2 := ref.CopyOptions(lo)
			lo2.Offset = lo.Offset + 1
			pool = append(pool, rd{b.q, lo}, rd{b.q, lo2})
		}
		for step := 0; step < steps; step++ {
			hi := rng.Intn(len(handles))
			wg := handles[hi]
			if rng.Intn(12) == 0 {
				// store-level operations that must be without effect on what the
				// handles serve: creating the existing graph (must fail), getting a
				// missing one, and acquiring a further handle mid-history
				switch rng.Intn(3) {
				case 0:
					hist = append(hist, "store.NewGraph(existing)")
					if _, err := wrapped.NewGraph(ctx, "?g"); err == nil {
						r.Violation("create-existing-succeeds/memoized", "NewGraph of an existing graph succeeded through the memoizer", hist)
					}
				case 1:
					hist = append(hist, "store.Graph(missing)")
					if _, err := wrapped.Graph(ctx, "?nosuch"); err == nil {
						r.Violation("get-missing-succeeds/memoized", "Graph of a missing graph succeeded through the memoizer", hist)
					}
				default:
					if hk, err := wrapped.Graph(ctx, "?g"); err == nil && len(handles) < 5 {
						hist = append(hist, fmt.Sprintf("h%d := store.Graph()", len(handles)))
						handles = append(handles, hk)
					}
				}
			}
			switch x := rng.Intn(10); {
			case x < 2:
				var b []int
				for j := 1 + rng.Intn(3); j > 0; j-- {
					b = append(b, rng.Intn(len(univ)))
				}
				ts := batchTriples(univ, b)
				hist = append(hist, fmt.Sprintf("h%d.add%v", hi, b))
				wg.AddTriples(ctx, ts)
				pg.AddTriples(ctx, ts)
				lastWrite = step
			case x < 3:
				b := []int{rng.Intn(len(univ))}
				ts := batchTriples(univ, b)
				hist = append(hist, fmt.Sprintf("h%d.remove%v", hi, b))
				wg.RemoveTriples(ctx, ts)
				pg.RemoveTriples(ctx, ts)
				lastWrite = step
			case x < 4:
				t := univ[rng.Intn(len(univ))]
				hist = append(hist, fmt.Sprintf("h%d.exist(%s)", hi, t))
				r.Note(strings.Join(hist, " "))
				a, e1 := wg.Exist(ctx, t)
				b, e2 := pg.Exist(ctx, t)
				r.Eval(1)
				if a != b || (e1 == nil) != (e2 == nil) {
					cls := "single-handle"
					if len(handles) > 1 {
						cls = "several-handles"
					}
					r.Violation("exist-differs/"+cls, fmt.Sprintf("Exist through the memoizer is %v, the wrapped store says %v", a, b), map[string]interface{}{"universe": tripleStrings(univ), "history": hist})
				}
			default:
				rdx := pool[rng.Intn(len(pool))]
				sig := rdx.q.String() + "|" + ref.OptionsString(rdx.lo)
				hist = append(hist, fmt.Sprintf("h%d.%s[%s]", hi, rdx.q, ref.OptionsString(rdx.lo)))
				r.Note(strings.Join(hist, " "))
				got, e1, closed := ref.Call(ctx, wg, rdx.q, ref.CopyOptions(rdx.lo))
				want, e2, _ := ref.Call(ctx, pg, rdx.q, ref.CopyOptions(rdx.lo))
				r.Eval(1)
				if !closed {
					r.Violation("channel-not-closed/"+rdx.q.Method, "memoized lookup did not close its channel", hist)
				}
				w := func() map[string]interface{} {
					return map[string]interface{}{"universe": tripleStrings(univ), "history": hist, "through_memoizer": showAll(got, 6), "wrapped_store": showAll(want, 6)}
				}
				cls := "single-handle"
				if len(handles) > 1 {
					cls = "several-handles"
				}
				if rdx.lo.Offset > 0 {
					cls += "+offset"
				}
				if (e1 == nil) != (e2 == nil) {
					r.Violation("read-error-differs/"+cls, fmt.Sprintf("memoizer err=%v, wrapped store err=%v", e1, e2), w())
				} else if strings.Join(got, "\x1c") != strings.Join(want, "\x1c") {
					r.Violation("read-differs/"+cls, fmt.Sprintf("%s through the memoizer returns %d elements, the wrapped store %d", rdx.q, len(got), len(want)), w())
				}
				if st, ok := lastRead[sig]; ok && st < lastWrite {
					repeatedAfterWrite = true
				}
				lastRead[sig] = step
				if rdx.lo.Offset > 0 {
					offsetPair = true
				}
			}
		}
		if repeatedAfterWrite && offsetPair {
			r.Nontrivial(strings.Join(hist, " "))
		}
		if h == 0 {
			r.Sample(map[string]interface{}{"handles": len(handles), "history": hist[:min(10, len(hist))]})
		}
	}
}

// ---------------------------------------------------------------------------
// (b) hook-level interleavings

type pidKey struct{}

type c19Event struct {
	pid      int
	point    string
	finished bool
}

// c19Sched steers participants at the memoizer's yield points.
type c19Sched struct {
	events chan c19Event
	grants []chan struct{}
}

func (s *c19Sched) yield(ctx context.Context, point string) {
	pid, ok := ctx.Value(pidKey{}).(int)
	if !ok {
		return
	}
	s.events <- c19Event{pid: pid, point: point}
	<-s.grants[pid]
}

type c19Program struct {
	writeAdd bool
	readers  int
	otherHdl bool // reader 2 uses another handle
	q        ref.Query
	// r2first, when set, makes reader 2 perform another read first (an
	// existence test of the written triple, or a lookup under another cache
	// key) and then the lookup q: two reads one after the other by one client
	r2first string // "", "exist", "other-lookup"
}

// runSchedule executes the program under the schedule (participant ids; when
// the list is exhausted the first enabled participant is chosen). It returns
// the trace of (enabled, chosen, point), and the verdict data.
type c19Step struct {
	enabled []int
	chosen  int
	point   string
}

func c19RunSchedule(prog c19Program, schedule []int, free *rand.Rand) (trace []c19Step, finalOK bool, detail string, readerBetween bool, hist []string, linear porcupine.CheckResult) {
	ctx := context.Background()
	inner := memory.NewStore()
	wrapped := memoization.New(inner)
	ig, _ := inner.NewGraph(ctx, "?g")
	base := []*triple.Triple{c19T(0), c19T(1)}
	// the history of the run, at the client boundary: execution is serialised by
	// the scheduler, so the recorder's clock orders operations as they happened
	qOther := ref.Query{Method: "TriplesForObject", O: triple.NewNodeObject(gen.VNodes[3])} // the object of the added triple
	if !prog.writeAdd {
		qOther.O = triple.NewNodeObject(gen.VNodes[1]) // the object of the removed triple
	}
	spec := &lin.GraphSpec{Universe: []*triple.Triple{c19T(0), c19T(1), c19T(2)}, Queries: []ref.Query{prog.q, qOther}, Options: []*storage.LookupOptions{storage.DefaultLookup, storage.DefaultLookup}}
	rec := lin.NewRecorder()
	setup := rec.Client(99)
	setup.Do(func() ([]interface{}, []interface{}) {
		ig.AddTriples(ctx, base)
		return []interface{}{lin.GIn{Kind: lin.OpAdd, Mask: 3}}, []interface{}{""}
	})
	setup.Flush()
	lookup := func(cl *lin.ClientLog, c context.Context, hd storage.Graph, qi int) []string {
		var res []string
		cl.Do(func() ([]interface{}, []interface{}) {
			res, _, _ = ref.Call(c, hd, spec.Queries[qi], storage.DefaultLookup)
			sorted := append([]string{}, res...)
			sort.Strings(sorted)
			return []interface{}{lin.GIn{Kind: lin.OpLookup, Q: qi}}, []interface{}{strings.Join(sorted, "\x1c")}
		})
		return res
	}
	h1, _ := wrapped.Graph(ctx, "?g")
	h2 := h1
	if prog.otherHdl {
		h2, _ = wrapped.Graph(ctx, "?g")
	}
	n := 1 + prog.readers
	s := &c19Sched{events: make(chan c19Event), grants: make([]chan struct{}, n)}
	for i := range s.grants {
		s.grants[i] = make(chan struct{})
	}
	memoization.VerifYield = s.yield
	memory.VerifYield = nil
	defer func() { memoization.VerifYield = nil }()
	results := make([][]string, n)
	// participants
	run := func(pid int, f func(ctx context.Context)) {
		go func() {
			<-s.grants[pid]
			f(context.WithValue(ctx, pidKey{}, pid))
			s.events <- c19Event{pid: pid, finished: true}
		}()
	}
	wt := c19T(2)
	if !prog.writeAdd {
		wt = c19T(0)
	}
	wbit := uint64(4)
	if !prog.writeAdd {
		wbit = 1
	}
	run(0, func(c context.Context) {
		cl := rec.Client(0)
		defer cl.Flush()
		cl.Do(func() ([]interface{}, []interface{}) {
			if prog.writeAdd {
				h1.AddTriples(c, []*triple.Triple{wt})
				return []interface{}{lin.GIn{Kind: lin.OpAdd, Mask: wbit}}, []interface{}{""}
			}
			h1.RemoveTriples(c, []*triple.Triple{wt})
			return []interface{}{lin.GIn{Kind: lin.OpRem1, Mask: wbit}}, []interface{}{""}
		})
	})
	for k := 1; k <= prog.readers; k++ {
		k := k
		hd := h1
		if k == 2 {
			hd = h2
		}
		run(k, func(c context.Context) {
			cl := rec.Client(k)
			defer cl.Flush()
			if k == 2 {
				switch prog.r2first {
				case "exist":
					cl.Do(func() ([]interface{}, []interface{}) {
						ok, _ := hd.Exist(c, wt)
						return []interface{}{lin.GIn{Kind: lin.OpExist, Mask: wbit}}, []interface{}{map[bool]string{true: "t", false: "f"}[ok]}
					})
				case "other-lookup":
					lookup(cl, c, hd, 1)
				}
			}
			results[k] = lookup(cl, c, hd, 0)
		})
	}
	alive := make([]bool, n)
	for i := range alive {
		alive[i] = true
	}
	lastPoint := make([]string, n)
	writerClearedNotForwarded := false
	for step := 0; ; step++ {
		var enabled []int
		for i, a := range alive {
			if a {
				enabled = append(enabled, i)
			}
		}
		if len(enabled) == 0 {
			break
		}
		chosen := enabled[0]
		if step < len(schedule) {
			chosen = schedule[step]
		} else if free != nil {
			// beyond the prescribed prefix: a uniformly random walk
			chosen = enabled[free.Intn(len(enabled))]
		}
		trace = append(trace, c19Step{enabled: enabled, chosen: chosen, point: lastPoint[chosen]})
		// NT: a reader step is taken while the writer sits between clear and forward
		if chosen != 0 && writerClearedNotForwarded {
			readerBetween = true
		}
		s.grants[chosen] <- struct{}{}
		ev := <-s.events
		if ev.finished {
			alive[ev.pid] = false
		} else {
			lastPoint[ev.pid] = ev.point
		}
		if ev.pid == 0 {
			writerClearedNotForwarded = !ev.finished && ev.point == "write:after-clear"
		}
	}
	memoization.VerifYield = nil
	// quiescent: final reads through every handle must equal the inner store
	want, _, _ := ref.Call(ctx, ig, prog.q, storage.DefaultLookup)
	finalOK = true
	for hi, hd := range []storage.Graph{h1, h2} {
		got, _, _ := ref.Call(ctx, hd, prog.q, storage.DefaultLookup)
		if strings.Join(got, "\x1c") != strings.Join(want, "\x1c") {
			finalOK = false
			detail = fmt.Sprintf("after quiescence handle %d returns %d elements, the wrapped store holds %d", hi+1, len(got), len(want))
		}
		if !prog.otherHdl {
			break
		}
	}
	ops := rec.Ops()
	model := lin.GraphModel(spec)
	linear, _ = porcupine.CheckOperationsVerbose(model, ops, 20*time.Second)
	if linear != porcupine.Ok {
		hist = lin.Describe(model, ops)
	}
	return
}

// c19TwoWriters: two writes on the same triple overlap. Writer A is held at one
// of its internal steps while writer B (the opposite operation on the same
// triple, same or another handle) runs to completion; then A finishes. After
// quiescence every read through the wrapper has to equal the wrapped store.
func c19TwoWriters(r *rt.Rec, which int) {
	points := []string{"write:after-clear", "write:after-inner", "write:after-forward"}
	point := points[which%3]
	aAdds := (which/3)%2 == 0
	otherHandle := (which/6)%2 == 1
	preRead := (which/12)%2 == 1
	label := fmt.Sprintf("two-writers|A=%v@%s|other-handle=%v|pre-read=%v", map[bool]string{true: "add", false: "remove"}[aAdds], point, otherHandle, preRead)
	r.Begin(label)
	ctx := context.Background()
	inner := memory.NewStore()
	wrapped := memoization.New(inner)
	ig, _ := inner.NewGraph(ctx, "?g")
	t := c19T(2)
	base := []*triple.Triple{c19T(0), c19T(1)}
	if !aAdds {
		base = append(base, t) // A removes a stored triple, B re-adds it
	}
	ig.AddTriples(ctx, base)
	hA, _ := wrapped.Graph(ctx, "?g")
	hB := hA
	if otherHandle {
		hB, _ = wrapped.Graph(ctx, "?g")
	}
	queries := []ref.Query{
		{Method: "Triples"},
		{Method: "Objects", S: gen.VNodes[0], P: gen.MustImm("p")},
		{Method: "TriplesForSubject", S: gen.VNodes[0]},
		{Method: "TriplesForObject", O: triple.NewNodeObject(gen.VNodes[3])},
		{Method: "PredicatesForSubjectAndObject", S: gen.VNodes[0], O: triple.NewNodeObject(gen.VNodes[3])},
	}
	readAll := func(g storage.Graph) []string {
		var out []string
		for _, tt := range []*triple.Triple{c19T(0), c19T(1), t} {
			ok, err := g.Exist(ctx, tt)
			out = append(out, fmt.Sprintf("Exist(%s)=%v,%v", tt, ok, err != nil))
		}
		for _, q := range queries {
			res, _, _ := ref.Call(ctx, g, q, storage.DefaultLookup)
			sort.Strings(res)
			out = append(out, q.Method+"="+strings.Join(res, "|"))
		}
		return out
	}
	if preRead {
		readAll(hA)
		readAll(hB)
	}
	type keyA struct{}
	held := make(chan struct{})
	release := make(chan struct{})
	var once sync.Once
	reached := false
	memoization.VerifYield = func(c context.Context, pt string) {
		if c.Value(keyA{}) == nil || pt != point {
			return
		}
		once.Do(func() {
			reached = true
			close(held)
			<-release
		})
	}
	memory.VerifYield = nil
	defer func() { memoization.VerifYield = nil }()
	doneA := make(chan struct{})
	go func() {
		defer close(doneA)
		ca := context.WithValue(ctx, keyA{}, 1)
		if aAdds {
			hA.AddTriples(ca, []*triple.Triple{t})
		} else {
			hA.RemoveTriples(ca, []*triple.Triple{t})
		}
	}()
	select {
	case <-held:
	case <-doneA: // the step is not on this path
	}
	doneB := make(chan struct{})
	go func() {
		defer close(doneB)
		if aAdds {
			hB.RemoveTriples(ctx, []*triple.Triple{t})
		} else {
			hB.AddTriples(ctx, []*triple.Triple{t})
		}
	}()
	bWhileHeld := false
	select {
	case <-doneB:
		bWhileHeld = true
	case <-time.After(300 * time.Millisecond):
		// B waits for A (a lock): legitimate, it will finish after A
	}
	close(release)
	<-doneA
	<-doneB
	memoization.VerifYield = nil
	r.Eval(1)
	got, want := readAll(hA), readAll(ig)
	gotB := readAll(hB)
	for i := range want {
		if got[i] != want[i] || gotB[i] != want[i] {
			kind := strings.SplitN(want[i], "=", 2)[0]
			if strings.HasPrefix(kind, "Exist") {
				kind = "Exist"
			}
			r.Violation("read-differs/two-writers/"+kind, fmt.Sprintf("after two overlapping writes on one triple (A held at %s while B ran) a read through the memoizer differs from the wrapped store: wrapper %q / %q, wrapped store %q", point, got[i], gotB[i], want[i]),
				map[string]interface{}{"case": label, "wrapper": got, "wrapper_other_handle": gotB, "wrapped": want})
			break
		}
	}
	if reached && bWhileHeld {
		r.Nontrivial(label)
	}
	r.Count("two_writer_overlaps", 1)
}

// c19CancelledRead: a listing through the wrapper is abandoned half way (its
// context is cancelled after a few elements); the same listing asked again, with
// a live context and no write in between, has to equal the wrapped store's.
func c19CancelledRead(r *rt.Rec, rng *rand.Rand, which int) {
	ctx := context.Background()
	inner := memory.NewStore()
	wrapped := memoization.New(inner)
	ig, _ := inner.NewGraph(ctx, "?g")
	n := []int{3, 40, 200, 1200}[which%4]
	var ts []*triple.Triple
	for i := 0; i < n; i++ {
		ts = append(ts, gen.MustTriple(gen.VNodes[0], gen.MustImm("p"), triple.NewNodeObject(gen.MustNode("/u", fmt.Sprintf("c%d", i)))))
	}
	ig.AddTriples(ctx, ts)
	hd, _ := wrapped.Graph(ctx, "?g")
	method := []string{"Triples", "TriplesForSubject", "Objects"}[(which/4)%3]
	after := 1 + rng.Intn(n-1)
	label := fmt.Sprintf("cancelled-read|%s|%d-of-%d", method, after, n)
	r.Begin(label)
	r.Eval(1)
	call := func(c context.Context, g storage.Graph, stopAfter int, cancel func()) (int, error) {
		got := 0
		var err error
		done := make(chan struct{})
		count := func() {
			got++
			if got == stopAfter && cancel != nil {
				cancel()
			}
		}
		switch method {
		case "Triples", "TriplesForSubject":
			ch := make(chan *triple.Triple)
			go func() {
				defer close(done)
				for range ch {
					count()
				}
			}()
			if method == "Triples" {
				err = g.Triples(c, storage.DefaultLookup, ch)
			} else {
				err = g.TriplesForSubject(c, gen.VNodes[0], storage.DefaultLookup, ch)
			}
		default:
			ch := make(chan *triple.Object)
			go func() {
				defer close(done)
				for range ch {
					count()
				}
			}()
			err = g.Objects(c, gen.VNodes[0], gen.MustImm("p"), storage.DefaultLookup, ch)
		}
		<-done
		return got, err
	}
	cctx, cancel := context.WithCancel(ctx)
	first, _ := call(cctx, hd, after, cancel)
	cancel()
	time.Sleep(time.Millisecond)
	second, err2 := call(ctx, hd, -1, nil)
	want, _ := call(ctx, ig, -1, nil)
	if err2 != nil || second != want {
		r.Violation("read-differs/after-cancelled-read/"+method, fmt.Sprintf("%s through the memoizer returns %d elements (error: %v) after an identical listing was cancelled after %d elements (it delivered %d); the wrapped store returns %d", method, second, err2, after, first, want),
			map[string]interface{}{"case": label})
	}
	if first < want {
		r.Nontrivial(label)
	}
	r.Count("cancelled_reads", 1)
}

func c19T(i int) *triple.Triple {
	return gen.MustTriple(gen.VNodes[0], gen.MustImm("p"), triple.NewNodeObject(gen.VNodes[1+i]))
}

// c19Explore enumerates every maximal schedule of the program by re-execution.
func c19Explore(r *rt.Rec, prog c19Program, limit int, rng *rand.Rand) {
	var schedule []int
	count := 0
	finalStates := map[string]bool{}
	for {
		var free *rand.Rand
		if limit > 0 && rng != nil && count%2 == 1 {
			// sampling mode: every other run is a random walk from the start
			schedule, free = nil, rng
		}
		trace, ok, detail, between, hist, linear := c19RunSchedule(prog, schedule, free)
		count++
		r.Eval(1)
		var chosen []string
		full := make([]int, len(trace))
		for i, st := range trace {
			full[i] = st.chosen
			chosen = append(chosen, fmt.Sprintf("%d@%s", st.chosen, st.point))
		}
		finalStates[fmt.Sprint(ok)] = true
		desc := fmt.Sprintf("writer=%s readers=%d other-handle=%v reader2-first=%q %s schedule=%v", map[bool]string{true: "add", false: "remove"}[prog.writeAdd], prog.readers, prog.otherHdl, prog.r2first, prog.q.Method, chosen)
		r.Note(desc)
		switch linear {
		case porcupine.Illegal:
			cls := "one-read-per-reader"
			if prog.r2first != "" {
				cls = "two-reads-by-one-reader"
			}
			r.Violation("not-linearizable/steered/"+cls, "the reads and the write of a steered schedule have no sequential explanation: a read returned the state before the write after another read had already returned the state after it",
				map[string]interface{}{"program": desc, "schedule": full, "history": hist})
		case porcupine.Unknown:
			r.Inconclusive("porcupine timed out on a steered history")
		}
		if !ok {
			cls := "same-handle"
			if prog.otherHdl {
				cls = "other-handle"
			}
			r.Violation("stale-after-write/"+cls, "a read that starts after every write has returned does not reflect the write: "+detail,
				map[string]interface{}{"program": desc, "schedule": full})
		}
		if between {
			r.Nontrivial(desc)
		}
		r.Distinct("schedules", fmt.Sprint(full))
		// next schedule: last position with an untried alternative
		next := -1
		for i := len(trace) - 1; i >= 0; i-- {
			en := trace[i].enabled
			idx := sort.SearchInts(en, trace[i].chosen)
			if idx+1 < len(en) {
				next = i
				schedule = append(append([]int{}, full[:i]...), en[idx+1])
				break
			}
		}
		if next < 0 || (limit > 0 && count >= limit) {
			break
		}
		if limit > 0 && rng != nil && count%3 == 0 {
			// sampling mode: jump to a random prefix
			k := rng.Intn(len(trace))
			en := trace[k].enabled
			schedule = append(append([]int{}, full[:k]...), en[rng.Intn(len(en))])
		}
	}
	r.Count("schedules_run", count)
}

func c19Programs() []c19Program {
	q := ref.Query{Method: "TriplesForSubject", S: gen.VNodes[0]}
	q2 := ref.Query{Method: "Objects", S: gen.VNodes[0], P: gen.MustImm("p")}
	return []c19Program{
		{writeAdd: true, readers: 1, q: q},
		{writeAdd: false, readers: 1, q: q},
		{writeAdd: true, readers: 1, q: q2},
		{writeAdd: true, readers: 2, q: q},
		{writeAdd: false, readers: 2, q: q2},
		{writeAdd: true, readers: 2, otherHdl: true, q: q},
		{writeAdd: true, readers: 2, q: q, r2first: "exist"},
		{writeAdd: false, readers: 2, otherHdl: true, q: q2, r2first: "other-lookup"},
	}
}

func c19Interleavings(r *rt.Rec, which int, sampleWRR int, rng *rand.Rand) {
	progs := c19Programs()
	p := progs[which%len(progs)]
	limit := 0
	if p.r2first != "" {
		// the schedule space of a reader with two reads is in the hundreds of
		// thousands: always sampled
		limit = 1500
		if sampleWRR == 0 {
			limit = 40000
		}
	} else if p.readers == 2 {
		limit = sampleWRR
	}
	c19Explore(r, p, limit, rng)
}

// ---------------------------------------------------------------------------
// (c) un-steered stress under the race detector, checked with porcupine

func c19Stress(r *rt.Rec, rng *rand.Rand, n int) {
	for i := 0; i < n; i++ {
		h := genGraphHistory(rng)
		for qi := range h.spec.Options {
			h.spec.Options[qi] = storage.DefaultLookup
		}
		h.shared = nil
		if len(h.clients) > 8 {
			h.clients = h.clients[:8]
		}
		ctx := context.Background()
		inner := memory.NewStore()
		wrapped := memoization.New(inner)
		var g0 storage.Graph
		if i%2 == 1 {
			// the graph is created behind the wrapper's back: no handle of it has
			// been handed out when the clients start
			inner.NewGraph(ctx, "?g")
		} else {
			g0, _ = wrapped.NewGraph(ctx, "?g")
		}
		rec := lin.NewRecorder()
		var wg sync.WaitGroup
		start := make(chan struct{})
		for ci, ops := range h.clients {
			wg.Add(1)
			go func(ci int, ops []c07Op) {
				defer wg.Done()
				cl := rec.Client(ci)
				defer cl.Flush()
				<-start
				// every other client works through a handle of its own, obtained
				// while the others are obtaining theirs (the graph exists, but the
				// wrapper may not have handed out a handle for it yet)
				g := g0
				if ci%2 == 1 || i%2 == 1 {
					if hg, err := wrapped.Graph(ctx, "?g"); err == nil {
						g = hg
					}
				}
				for _, op := range ops {
					op := op
					switch op.kind {
					case lin.OpAdd:
						cl.Do(func() ([]interface{}, []interface{}) {
							g.AddTriples(ctx, batchTriples(h.spec.Universe, op.batch))
							return []interface{}{lin.GIn{Kind: lin.OpAdd, Mask: maskOf(op.batch)}}, []interface{}{""}
						})
					case lin.OpRem1:
						cl.Do(func() ([]interface{}, []interface{}) {
							g.RemoveTriples(ctx, batchTriples(h.spec.Universe, op.batch))
							var ins, outs []interface{}
							for _, b := range op.batch {
								ins = append(ins, lin.GIn{Kind: lin.OpRem1, Mask: 1 << uint(b)})
								outs = append(outs, "")
							}
							return ins, outs
						})
					case lin.OpExist:
						cl.Do(func() ([]interface{}, []interface{}) {
							ok, _ := g.Exist(ctx, h.spec.Universe[op.batch[0]])
							o := "f"
							if ok {
								o = "t"
							}
							return []interface{}{lin.GIn{Kind: lin.OpExist, Mask: 1 << uint(op.batch[0])}}, []interface{}{o}
						})
					default:
						cl.Do(func() ([]interface{}, []interface{}) {
							res, _, _ := ref.Call(ctx, g, h.spec.Queries[op.q], storage.DefaultLookup)
							sort.Strings(res)
							return []interface{}{lin.GIn{Kind: lin.OpLookup, Q: op.q}}, []interface{}{strings.Join(res, "\x1c")}
						})
					}
				}
			}(ci, ops)
		}
		close(start)
		wg.Wait()
		ops := rec.Ops()
		r.Eval(len(ops))
		model := lin.GraphModel(h.spec)
		res, _ := porcupine.CheckOperationsVerbose(model, ops, 30*time.Second)
		r.Count("stress_operations", len(ops))
		switch res {
		case porcupine.Illegal:
			r.Violation("not-linearizable/memoized-graph", "a history of concurrent operations through the memoizer has no sequential explanation (a read reflected a state older than a completed write)", map[string]interface{}{"universe": tripleStrings(h.spec.Universe), "history": lin.Describe(model, ops)})
		case porcupine.Unknown:
			r.Inconclusive("porcupine timed out on a memoizer history")
		default:
			if lin.Overlaps(ops) > 0 {
				r.Nontrivial(fmt.Sprintf("stress|%d|%v", i, lin.Describe(model, ops[:min(5, len(ops))])))
			}
		}
	}
}

// c19FaultThenRead: a lookup through the wrapper fails after delivering part of
// its elements (the wrapped driver returns an error); the same lookup repeated
// afterwards, with the driver healthy again, must give the wrapped store's
// answer, not what was seen before the failure.
func c19FaultThenRead(r *rt.Rec, rng *rand.Rand, n int) {
	ctx := context.Background()
	for i := 0; i < n; i++ {
		univ := gen.Universe(rng, 10)
		inner := memory.NewStore()
		ig, _ := inner.NewGraph(ctx, "?g")
		ig.AddTriples(ctx, univ)
		qs := allQueries(univ)
		q := qs[rng.Intn(len(qs))]
		full, _, _ := ref.Call(ctx, ig, q, storage.DefaultLookup)
		if len(full) < 2 {
			continue
		}
		after := rng.Intn(len(full))
		// call 1 is Store.Graph, call 2 the lookup
		fs := fault.New(inner, fault.Plan{K: 2, After: after})
		wrapped := memoization.New(fs)
		wg, err := wrapped.Graph(ctx, "?g")
		if err != nil {
			continue
		}
		r.Note(fmt.Sprintf("fault-then-read %s failing after %d of %d elements", q, after, len(full)))
		_, err1, _ := ref.Call(ctx, wg, q, storage.DefaultLookup)
		got, err2, _ := ref.Call(ctx, wg, q, storage.DefaultLookup)
		r.Eval(1)
		if fs.Fired() == nil {
			r.Inconclusive("the planned driver failure did not fire")
			continue
		}
		if err1 == nil {
			r.Violation("failed-read-no-error/"+q.Method, "the wrapped lookup failed but the memoizer returned no error", q.String())
		}
		if err2 != nil || strings.Join(got, "\x1c") != strings.Join(full, "\x1c") {
			r.Violation("partial-result-memoized/"+q.Method, fmt.Sprintf("after a lookup that failed part way (%d of %d elements) the same lookup returns %d elements (err=%v); the wrapped store returns %d", after, len(full), len(got), err2, len(full)),
				map[string]interface{}{"lookup": q.String(), "universe": tripleStrings(univ)})
		}
		r.Nontrivial(fmt.Sprintf("%v|%s|%d", tripleStrings(univ), q, after))
	}
}

// ---------------------------------------------------------------------------
// (d) key confusion: within one cache generation (no write) every lookup method
// is called with arguments that carry the same identifiers in different roles
// (a node as subject and as object, a predicate as predicate and as reified
// object) and with option values that differ in exactly one field; each call is
// made twice (miss, then hit) in shuffled order and compared with the plain store.

func c19ConfusionOptions() []*storage.LookupOptions {
	t1, t2, t2z, t3 := gen.T1, gen.T2, gen.T2Z, gen.T3
	whole := gen.T3.Truncate(time.Second)
	fo := func(op filter.Operation, f filter.Field) *storage.LookupOptions {
		return &storage.LookupOptions{FilterOptions: &filter.StorageOptions{Operation: op, Field: f}}
	}
	return []*storage.LookupOptions{
		storage.DefaultLookup,
		{MaxElements: 1}, {MaxElements: 2}, {MaxElements: 1, Offset: 1}, {MaxElements: 1, Offset: 2}, {MaxElements: 2, Offset: 1}, {Offset: 1}, {Offset: 2},
		{LowerAnchor: &t1}, {LowerAnchor: &t2}, {LowerAnchor: &t2z}, {UpperAnchor: &t2}, {UpperAnchor: &t1}, {UpperAnchor: &t3}, {UpperAnchor: &whole},
		{LowerAnchor: &t1, UpperAnchor: &t2}, {LowerAnchor: &t2, UpperAnchor: &t1}, {LowerAnchor: &t2, UpperAnchor: &t2},
		{LatestAnchor: true}, {LatestAnchor: true, MaxElements: 1},
		{LatestAnchor: true, UpperAnchor: &t1}, {LatestAnchor: true, UpperAnchor: &t2}, {LatestAnchor: true, LowerAnchor: &t2}, {LatestAnchor: true, LowerAnchor: &t1, UpperAnchor: &t2},
		fo(filter.Latest, filter.PredicateField), fo(filter.Latest, filter.ObjectField),
		fo(filter.IsImmutable, filter.PredicateField), fo(filter.IsImmutable, filter.ObjectField),
		fo(filter.IsTemporal, filter.PredicateField), fo(filter.IsTemporal, filter.ObjectField),
	}
}

func c19KeyConfusion(r *rt.Rec, rng *rand.Rand, rounds int) {
	ctx := context.Background()
	ns := gen.VNodes[:3]
	ps := []*predicate.Predicate{gen.MustImm("p"), gen.MustImm("q"), gen.MustTemp("p", gen.T1), gen.MustTemp("p", gen.T2), gen.MustTemp("q", gen.T3)}
	var os []*triple.Object
	for _, n := range ns {
		os = append(os, triple.NewNodeObject(n))
	}
	for _, p := range ps[:4] {
		os = append(os, triple.NewPredicateObject(p))
	}
	os = append(os, triple.NewLiteralObject(gen.VLits[3]), triple.NewLiteralObject(gen.VLits[8]))
	for round := 0; round < rounds; round++ {
		// data: a random 60% of the full product, so that answers differ between roles
		var data []*triple.Triple
		for _, s := range ns {
			for _, p := range ps {
				for _, o := range os {
					if rng.Intn(10) < 6 {
						data = append(data, gen.MustTriple(s, p, o))
					}
				}
			}
		}
		plain := memory.NewStore()
		wrapped := memoization.New(memory.NewStore())
		pg, _ := plain.NewGraph(ctx, "?g")
		wg, _ := wrapped.NewGraph(ctx, "?g")
		wg2, _ := wrapped.Graph(ctx, "?g")
		pg.AddTriples(ctx, data)
		wg.AddTriples(ctx, data)
		type probe struct {
			q  ref.Query
			lo *storage.LookupOptions
		}
		var probes []probe
		los := c19ConfusionOptions()
		for _, m := range ref.Methods {
			us, up, uo := ref.Uses(m)
			S, P, O := []*node.Node{nil}, []*predicate.Predicate{nil}, []*triple.Object{nil}
			if us {
				S = ns
			}
			if up {
				P = ps
			}
			if uo {
				O = os
			}
			for _, s := range S {
				for _, p := range P {
					for _, o := range O {
						for _, lo := range los {
							probes = append(probes, probe{ref.Query{Method: m, S: s, P: p, O: o}, lo})
						}
					}
				}
			}
		}
		// the plain store's answers, and how many distinct answers share one
		// (argument identifiers, options) signature across methods / roles
		want := make([]string, len(probes))
		werr := make([]bool, len(probes))
		bySig := map[string]map[string]bool{}
		for i, pb := range probes {
			res, err, _ := ref.Call(ctx, pg, pb.q, ref.CopyOptions(pb.lo))
			want[i], werr[i] = strings.Join(res, "\x1c"), err != nil
			var ids []string
			if pb.q.S != nil {
				ids = append(ids, pb.q.S.UUID().String())
			}
			if pb.q.P != nil {
				ids = append(ids, pb.q.P.UUID().String())
			}
			if pb.q.O != nil {
				ids = append(ids, pb.q.O.UUID().String())
			}
			sig := strings.Join(ids, ":") + "|" + ref.OptionsString(pb.lo)
			if bySig[sig] == nil {
				bySig[sig] = map[string]bool{}
			}
			bySig[sig][want[i]] = true
		}
		confusable := 0
		for _, answers := range bySig {
			if len(answers) > 1 {
				confusable++
			}
		}
		r.Count("confusable_signatures", confusable)
		reused := &storage.LookupOptions{}
		for pass := 0; pass < 3; pass++ {
			order := rng.Perm(len(probes))
			for _, i := range order {
				pb := probes[i]
				h := wg
				if pass == 2 && rng.Intn(2) == 0 {
					h = wg2
				}
				r.Note(fmt.Sprintf("key-confusion pass %d %s [%s]", pass, pb.q, ref.OptionsString(pb.lo)))
				arg := ref.CopyOptions(pb.lo)
				if pass == 1 {
					// one options object, overwritten in place before every call
					// field by field: whatever the object carries besides its exported
					// fields (a cached digest, say) stays in place
					reused.MaxElements, reused.Offset = arg.MaxElements, arg.Offset
					reused.LowerAnchor, reused.UpperAnchor = arg.LowerAnchor, arg.UpperAnchor
					reused.LatestAnchor, reused.FilterOptions = arg.LatestAnchor, arg.FilterOptions
					arg = reused
				}
				got, err, closed := ref.Call(ctx, h, pb.q, arg)
				r.Eval(1)
				if !closed {
					r.Violation("channel-not-closed/"+pb.q.Method, "memoized lookup did not close its channel", pb.q.String())
				}
				if (err != nil) != werr[i] {
					r.Violation("read-error-differs/no-write", fmt.Sprintf("%s [%s]: memoizer err=%v, wrapped store error=%v", pb.q, ref.OptionsString(pb.lo), err, werr[i]), nil)
				} else if g := strings.Join(got, "\x1c"); g != want[i] {
					r.Violation("read-differs/no-write/"+pb.q.Method, fmt.Sprintf("with no write at all, %s [%s] through the memoizer returns %d elements, the wrapped store %d (another lookup's memoized answer?)", pb.q, ref.OptionsString(pb.lo), len(got), len(strings.Split(want[i], "\x1c"))),
						map[string]interface{}{"data": tripleStrings(data), "lookup": pb.q.String(), "options": ref.OptionsString(pb.lo), "through_memoizer": showAll(got, 6), "pass": pass})
				}
			}
		}
		// Exist for stored and not-stored triples, twice
		for pass := 0; pass < 2; pass++ {
			for _, s := range ns {
				for _, p := range ps {
					for _, o := range os {
						t := gen.MustTriple(s, p, o)
						a, _ := wg.Exist(ctx, t)
						b, _ := pg.Exist(ctx, t)
						r.Eval(1)
						if a != b {
							r.Violation("exist-differs/no-write", fmt.Sprintf("Exist(%s) through the memoizer is %v, the wrapped store says %v", t, a, b), nil)
						}
					}
				}
			}
		}
		if confusable > 0 {
			r.Nontrivial(fmt.Sprintf("confusion|%v", tripleStrings(data)))
		}
	}
}

// barrierStore makes the first n Graph() calls return together: the callers
// then enter the wrapper's bookkeeping at the same moment. It only shapes the
// interleaving; no verdict depends on it (a lone caller is released after a
// short wait).
type barrierStore struct {
	storage.Store
	mu      sync.Mutex
	n, seen int
	release chan struct{}
}

func newBarrierStore(inner storage.Store, n int) *barrierStore {
	return &barrierStore{Store: inner, n: n, release: make(chan struct{})}
}

func (b *barrierStore) Graph(ctx context.Context, id string) (storage.Graph, error) {
	g, err := b.Store.Graph(ctx, id)
	b.mu.Lock()
	b.seen++
	if b.seen == b.n {
		close(b.release)
	}
	wait := b.seen <= b.n
	b.mu.Unlock()
	if wait {
		select {
		case <-b.release:
		case <-time.After(50 * time.Millisecond):
		}
	}
	return g, err
}

// c19HandleRace: the graph exists in the wrapped store but the wrapper has not
// handed out a handle yet; k goroutines obtain their first handle at the same
// moment. Afterwards (sequentially, so the oracle is exact) a read through one
// handle, a write through another and the same read again must reflect the
// write, for every ordered pair of handles.
func c19HandleRace(r *rt.Rec, rng *rand.Rand, rounds int) {
	ctx := context.Background()
	q := ref.Query{Method: "TriplesForSubject", S: gen.VNodes[0]}
	for round := 0; round < rounds; round++ {
		k := 2 + rng.Intn(3)
		inner := memory.NewStore()
		ig, _ := inner.NewGraph(ctx, "?g")
		ig.AddTriples(ctx, []*triple.Triple{c19T(0)})
		wrapped := memoization.New(newBarrierStore(inner, k))
		handles := make([]storage.Graph, k)
		var wg sync.WaitGroup
		for i := 0; i < k; i++ {
			wg.Add(1)
			go func(i int) {
				defer wg.Done()
				handles[i], _ = wrapped.Graph(ctx, "?g")
			}(i)
		}
		wg.Wait()
		r.Note(fmt.Sprintf("handle race round %d with %d handles", round, k))
		next := 1
		for a := 0; a < k; a++ {
			for b := 0; b < k; b++ {
				if a == b || handles[a] == nil || handles[b] == nil {
					continue
				}
				ref.Call(ctx, handles[a], q, storage.DefaultLookup) // memoize through a
				t := c19T(next%3 + 1)
				next++
				add := rng.Intn(2) == 0
				if add {
					handles[b].AddTriples(ctx, []*triple.Triple{t})
				} else {
					handles[b].RemoveTriples(ctx, []*triple.Triple{t})
				}
				got, _, _ := ref.Call(ctx, handles[a], q, storage.DefaultLookup)
				want, _, _ := ref.Call(ctx, ig, q, storage.DefaultLookup)
				r.Eval(1)
				if strings.Join(got, "\x1c") != strings.Join(want, "\x1c") {
					r.Violation("stale-after-write/handles-obtained-concurrently", fmt.Sprintf("%d handles of one graph were obtained at the same moment; after a write through handle %d, handle %d still returns %d elements where the wrapped store holds %d", k, b, a, len(got), len(want)),
						map[string]interface{}{"handles": k, "read_handle": a, "write_handle": b, "through_memoizer": showAll(got, 6), "wrapped_store": showAll(want, 6)})
					break
				}
			}
		}
		r.Nontrivial(fmt.Sprintf("handle-race|%d|%d", round, k))
	}
}

func init() {
	register(&rt.Check{
		ID:    "C19",
		Level: "exploration",
		Rule: "(a) lockstep histories: one random sequence of writes, the eleven reads and Exist with every kind of option value (window, filters, LatestAnchor, MaxElements x Offset, pairs differing only in Offset), repeated reads, through 1-3 handles obtained from the wrapper, applied to memoization.New(memory.NewStore()) and to a plain memory store; (b) hook-level interleavings: a writer (one add or remove) and one or two readers (same lookup, same or another handle) steered by a scheduler at the memoizer's verif yield points, every maximal schedule enumerated by re-execution (W+R complete, W+R+R sampled in quick / complete in thorough); (c) the same mix un-steered with 8 goroutines under -race, recorded and checked with the C07 porcupine model; (d) key confusion: with no write at all, every lookup method x arguments carrying the same identifiers in different roles (node as subject and as object, predicate as predicate and as reified object) x 32 option values differing in one field (incl. LatestAnchor with bounds, a page offset without a page size), each called three times in shuffled order through two handles, the second time through one options object that is overwritten in place and compared with the plain store; (e) a lookup that fails part way followed by the same lookup; (f) handle race: 2-4 goroutines obtain their first handle of an existing graph at the same moment (the wrapped store releases their Graph() calls together), then read through one, write through another, read again, for every ordered pair; " +
			"oracle: every read through the wrapper equals the plain store's answer at that moment; after quiescence a read through every handle equals the wrapped store; porcupine Illegal = violation; non-trivial: (a) a repeated read with a write in between and a pair of reads differing only in Offset, (b) a reader step while the writer sits between cache clear and forwarded write; distinct by history / schedule",
		Assume: []string{"the yield hooks lie outside graphMemoizer.mu, so a granted participant never waits for a parked one", "W+R+R schedules are sampled in the quick tier"},
		Floor:  30,
		Phases: func(tier string, seed int64) []rt.Phase {
			n, steps, wrr, st, kc, hr := 208, 60, 400, 160, 1, 150
			if tier == "thorough" {
				n, steps, wrr, st, kc, hr = 3008, 80, 0, 2000, 12, 3000
			}
			return []rt.Phase{
				{Name: "lockstep", N: 16, Run: func(i int, r *rt.Rec) { c19Lockstep(r, gen.Rng(seed, "c19a", i), n/16, steps) }},
				{Name: "store-histories-memoized", N: 16, Run: func(i int, r *rt.Rec) {
					// the C01 model driven through the wrapper: create / drop / re-create graphs,
					// add / remove batches, Exist and full listing after every step
					c01Histories(r, gen.Rng(seed, "c19h", i), n/32+1, 40, func(s storage.Store) storage.Store { return memoization.New(s) })
				}},
				{Name: "two-writers", N: 24, Exhaustive: true, Run: func(i int, r *rt.Rec) { c19TwoWriters(r, i) }},
				{Name: "cancelled-read", N: 24, Run: func(i int, r *rt.Rec) { c19CancelledRead(r, gen.Rng(seed, "c19x", i), i) }},
				{Name: "key-confusion", N: 8, Run: func(i int, r *rt.Rec) { c19KeyConfusion(r, gen.Rng(seed, "c19k", i), kc) }},
				{Name: "handle-race", N: 8, Procs: 16, Run: func(i int, r *rt.Rec) { c19HandleRace(r, gen.Rng(seed, "c19hr", i), hr) }},
				{Name: "fault-then-read", N: 8, Run: func(i int, r *rt.Rec) { c19FaultThenRead(r, gen.Rng(seed, "c19f", i), n/16+4) }},
				{Name: "interleavings", N: 8, Exhaustive: tier == "thorough", Run: func(i int, r *rt.Rec) { c19Interleavings(r, i, wrr, gen.Rng(seed, "c19b", i)) }},
				{Name: "stress-race", N: 16, Race: true, Run: func(i int, r *rt.Rec) { c19Stress(r, gen.Rng(seed, "c19c", i), st/16) }},
			}
		},
	})
}

var _ = cv.Null
