package checks

import (
	"fmt"
	"math/rand"
	"strings"
	"sync"
	"unicode"

	"bwverif/gen"
	"bwverif/gram"
	"bwverif/rt"

	"github.com/google/badwolf/bql/grammar"
	"github.com/google/badwolf/bql/lexer"
	"github.com/google/badwolf/triple/literal"
)

var c16Alphabet = []string{`"`, `\`, "@", "[", "]", "^", ":", "<", ">", "/", "_", "?", ",", ";", ".", "(", "{", "a", "s", "i", "d", "1", " ", "\n", "="}

type span struct{ start, end int }

// embed finds the greedy leftmost embedding of the token texts in the input.
func embed(input string, toks []lexer.Token) ([]span, bool) {
	pos := 0
	spans := make([]span, len(toks))
	for i, t := range toks {
		j := strings.Index(input[pos:], t.Text)
		if j < 0 {
			return nil, false
		}
		spans[i] = span{pos + j, pos + j + len(t.Text)}
		pos = spans[i].end
	}
	return spans, true
}

func isKeywordKind(k lexer.TokenType) bool {
	switch k {
	case lexer.ItemBinding, lexer.ItemNode, lexer.ItemBlankNode, lexer.ItemLiteral, lexer.ItemPredicate, lexer.ItemPredicateBound, lexer.ItemTime,
		lexer.ItemFilterFunction, lexer.ItemEOF, lexer.ItemError:
		return false
	}
	return true
}

func flipCase(rng *rand.Rand, s string) string {
	rs := []rune(s)
	for i, c := range rs {
		if rng.Intn(2) == 0 && c < 0x80 {
			// ASCII letters only: keywords and type names are ASCII, and
			// non-ASCII case pairs do not all fold back (dotless i)
			if unicode.IsUpper(c) {
				rs[i] = unicode.ToLower(c)
			} else if unicode.IsLower(c) {
				rs[i] = unicode.ToUpper(c)
			}
		}
	}
	return string(rs)
}

func tokString(ts []lexer.Token) string {
	var sb strings.Builder
	for _, t := range ts {
		fmt.Fprintf(&sb, "%s(%q) ", t.Type, t.Text)
	}
	return sb.String()
}

// c16Basic checks one input for termination, the end-token rule, embedding
// and capacity independence. It returns the tokens at capacity 0.
func c16Basic(r *rt.Rec, input string, caps []int) ([]lexer.Token, bool) {
	r.Note(input)
	r.Eval(1)
	var base []lexer.Token
	for ci, c := range caps {
		toks, ok := gram.Lex(input, c)
		if !ok {
			r.Violation("lexer-no-termination", fmt.Sprintf("channel not closed within the watchdog (capacity %d), %d tokens so far", c, len(toks)), input)
			return nil, false
		}
		if ci == 0 {
			base = toks
			continue
		}
		if tokString(toks) != tokString(base) {
			r.Violation("capacity-dependent", fmt.Sprintf("token stream differs between channel capacity %d and %d", caps[0], c), map[string]string{"input": input, "a": tokString(base), "b": tokString(toks)})
		}
	}
	if !c16Shape(r, input, base) {
		return base, false
	}
	return base, true
}

// c16Shape checks the end-token rule and the ordered-substring rule on one
// token stream (used for baseline inputs and for every variant of them).
func c16Shape(r *rt.Rec, input string, base []lexer.Token) bool {
	if len(base) == 0 {
		r.Violation("no-end-token/empty-stream", "the lexer closed the channel without emitting EOF or an error", input)
		return false
	}
	for i, t := range base {
		end := t.Type == lexer.ItemEOF || t.Type == lexer.ItemError
		if end && i != len(base)-1 {
			r.Violation("token-after-end/"+t.Type.String(), fmt.Sprintf("token %d of %d is %s but more tokens follow", i, len(base), t.Type), map[string]string{"input": input, "tokens": tokString(base)})
			return false
		}
		if !end && i == len(base)-1 {
			r.Violation("no-end-token/"+t.Type.String(), "the last token is neither EOF nor an error", map[string]string{"input": input, "tokens": tokString(base)})
			return false
		}
	}
	if _, ok := embed(input, base); !ok {
		r.Violation("not-ordered-substrings", "token texts are not non-overlapping substrings of the input in order", map[string]string{"input": input, "tokens": tokString(base)})
		return false
	}
	return true
}

// c16Variants checks keyword/type-name case changes and inter-token
// whitespace changes against the baseline tokens.
func c16Variants(r *rt.Rec, rng *rand.Rand, input string, base []lexer.Token) {
	spans, ok := embed(input, base)
	if !ok {
		return
	}
	// --- case variant: keywords and the type name after ^^type:
	var sb strings.Builder
	pos := 0
	changed := false
	for i, t := range base {
		sb.WriteString(input[pos:spans[i].start])
		txt := t.Text
		if isKeywordKind(t.Type) {
			txt = flipCase(rng, txt)
		} else if t.Type == lexer.ItemLiteral {
			if j := strings.LastIndex(txt, `"^^type:`); j >= 0 {
				txt = txt[:j+len(`"^^type:`)] + flipCase(rng, txt[j+len(`"^^type:`):])
			}
		}
		if txt != t.Text {
			changed = true
		}
		sb.WriteString(txt)
		pos = spans[i].end
	}
	sb.WriteString(input[pos:])
	if changed {
		v := sb.String()
		r.Note(v)
		toks, ok := gram.Lex(v, 0)
		r.Eval(1)
		if !ok {
			r.Violation("lexer-no-termination", "case variant does not terminate", v)
		} else if !c16Shape(r, v, toks) {
			// reported
		} else if gram.KindsString(gram.Kinds(toks)) != gram.KindsString(gram.Kinds(base)) {
			r.Violation("case-sensitive-keyword", "changing the letter case of keywords / literal type names changes the token kinds", map[string]string{"input": input, "variant": v, "base": tokString(base), "got": tokString(toks)})
		} else {
			for i := range toks {
				if !strings.EqualFold(toks[i].Text, base[i].Text) {
					r.Violation("case-variant-text", "token texts differ beyond letter case", map[string]string{"input": input, "variant": v})
					break
				}
			}
			r.Count("case_variants", 1)
		}
	}
	// --- whitespace variant: only non-empty whitespace runs strictly between
	// two token texts are replaced (the property speaks of whitespace between
	// two tokens; the ends of the input are left alone)
	ws := []string{" ", "\t", "\n", "  ", " \n", "\t \t"}
	sb.Reset()
	pos = 0
	wchanged := false
	for i := range base {
		gap := input[pos:spans[i].start]
		if gap != "" && strings.TrimSpace(gap) == "" && i > 0 && base[i].Text != "" {
			sb.WriteString(ws[rng.Intn(len(ws))])
			wchanged = true
		} else {
			sb.WriteString(gap)
		}
		sb.WriteString(base[i].Text)
		pos = spans[i].end
	}
	tail := input[pos:]
	sb.WriteString(tail)
	if !wchanged {
		return
	}
	v := sb.String()
	r.Note(v)
	toks, ok := gram.Lex(v, 0)
	r.Eval(1)
	if !ok {
		r.Violation("lexer-no-termination", "whitespace variant does not terminate", v)
		return
	}
	if !c16Shape(r, v, toks) {
		return
	}
	if gram.KindsString(gram.Kinds(toks)) != gram.KindsString(gram.Kinds(base)) {
		r.Violation("whitespace-sensitive-kinds", "changing the amount of whitespace between tokens changes the token kinds", map[string]string{"input": input, "variant": v, "base": tokString(base), "got": tokString(toks)})
		return
	}
	for i := range toks {
		if strings.TrimSpace(toks[i].Text) != strings.TrimSpace(base[i].Text) {
			r.Violation("whitespace-sensitive-texts", "changing the amount of whitespace between tokens changes a token text beyond surrounding whitespace", map[string]string{"input": input, "variant": v, "base": tokString(base), "got": tokString(toks)})
			return
		}
	}
	r.Count("whitespace_variants", 1)
}

func c16Enumerate(r *rt.Rec, first int, maxLen int, rng *rand.Rand) {
	caps := []int{0, 1, 2, 64}
	var rec func(prefix string)
	nt := 0
	rec = func(prefix string) {
		toks, ok := c16Basic(r, prefix, caps)
		if ok {
			if len(toks) >= 3 || (len(toks) >= 2 && toks[len(toks)-1].Type == lexer.ItemError) {
				nt++
			}
			if rng.Intn(8) == 0 {
				c16Variants(r, rng, prefix, toks)
			}
		}
		if len(prefix) >= maxLen {
			return
		}
		for _, c := range c16Alphabet {
			rec(prefix + c)
		}
	}
	rec(c16Alphabet[first])
	r.NontrivialDistinct(nt)
}

// c16Printed: the printed form of a value without embedded double quotes is
// one token carrying exactly that text.
func c16Printed(r *rt.Rec, rng *rand.Rand, n int) {
	// values that lexed as one token on their own, to be lexed again in pairs
	type printed struct {
		kind lexer.TokenType
		text string
	}
	var good []printed
	check := func(kind lexer.TokenType, text, what string, cls string) {
		r.Note(text)
		r.Eval(1)
		toks, ok := gram.Lex(text, 0)
		if !ok {
			r.Violation("lexer-no-termination", "printed "+what+" does not terminate", text)
			return
		}
		if len(toks) != 2 || toks[0].Type != kind || toks[0].Text != text || toks[1].Type != lexer.ItemEOF {
			r.Violation("lex-printed/"+what+"/"+cls, fmt.Sprintf("printed %s does not lex to [%s with that text, EOF]: got %s", what, kind, tokString(toks)), text)
			return
		}
		// the same value after another printed value (the lexer must not carry
		// anything over from one value to the next)
		if len(good) > 0 && !strings.ContainsAny(text, " \t\n") {
			prev := good[rng.Intn(len(good))]
			for _, sep := range []string{" ", "\n"} {
				pair := prev.text + sep + text
				r.Note(pair)
				r.Eval(1)
				pt, ok := gram.Lex(pair, 0)
				if !ok {
					r.Violation("lexer-no-termination", "two printed values do not terminate", pair)
					break
				}
				if len(pt) != 3 || pt[0].Type != prev.kind || pt[0].Text != prev.text || pt[1].Type != kind || pt[1].Text != text || pt[2].Type != lexer.ItemEOF {
					r.Violation("lex-printed-pair/"+what+"/"+cls, fmt.Sprintf("two printed values, each of which lexes to one token on its own, do not lex to [%s, %s, EOF] when written one after the other: got %s", prev.kind, kind, tokString(pt)), pair)
					break
				}
			}
			r.Count("printed_value_pairs", 1)
		}
		if !strings.ContainsAny(text, " \t\n") {
			if len(good) < 64 {
				good = append(good, printed{kind, text})
			} else {
				good[rng.Intn(64)] = printed{kind, text}
			}
		}
		if gen.Interesting(text) || strings.ContainsAny(text, `\[]<>@^: `) {
			r.Nontrivial(text)
		}
	}
	bsClass := func(s string, closing string) string {
		// one or more backslashes immediately before the closing quote
		i := strings.LastIndex(s, closing)
		if i > 0 {
			k := 0
			for j := i - 1; j >= 0 && s[j] == '\\'; j-- {
				k++
			}
			if k > 0 {
				return "backslash-before-closing-quote"
			}
		}
		if strings.Contains(s, `\`) {
			return "backslash-inside"
		}
		return "plain"
	}
	for i := 0; i < n; i++ {
		// node
		for {
			nd := gen.HNode(rng)
			s := nd.String()
			if strings.Contains(s, `"`) {
				continue
			}
			check(lexer.ItemNode, s, "node", features(s))
			break
		}
		// predicate: id without double quote (the quoted form then has exactly two quotes)
		for {
			p := gen.HPred(rng)
			if strings.Contains(string(p.ID()), `"`) {
				continue
			}
			s := p.String()
			check(lexer.ItemPredicate, s, "predicate", bsClass(s, `"@[`))
			// bound with the same id
			j := strings.LastIndex(s, `"@[`)
			b := s[:j+3] + "2015-01-01T00:00:00Z," + s[j+3:]
			if strings.HasSuffix(s, "@[]") {
				b = s[:len(s)-1] + "2015-01-01T00:00:00Z,2017-01-01T00:00:00.5+01:00]"
			}
			check(lexer.ItemPredicateBound, b, "bound", bsClass(b, `"@[`))
			break
		}
		for {
			l := gen.HLit(rng, false)
			s := l.String()
			if strings.Count(s, `"`) != 2 {
				continue
			}
			cls := bsClass(s, `"^^type:`)
			if l.Type() != literal.Text {
				cls = l.Type().String()
			}
			check(lexer.ItemLiteral, s, "literal", cls)
			// the same literal with its type name in another letter case: still one
			// LITERAL token, and (texts being substrings of the input) exactly that text
			if j := strings.LastIndex(s, `"^^type:`); j >= 0 {
				// (inputs of the known class backslash-before-closing-quote are masked by that finding)
				if v := s[:j+8] + flipCase(rng, s[j+8:]); v != s && cls != "backslash-before-closing-quote" {
					check(lexer.ItemLiteral, v, "literal-type-case", cls)
				}
			}
			break
		}
		// bindings and blank nodes
		id := []string{"x", "x1", "X_y", "a_", "é", "s0me_Long_name9", "select", "id", "type"}[rng.Intn(9)]
		check(lexer.ItemBinding, "?"+id, "binding", "plain")
		check(lexer.ItemBlankNode, "_:"+strings.TrimLeft(id, "_0123456789"), "blank-node", "plain")
	}
}

// c16Statements lexes generated statements and their mutations.
func c16Statements(r *rt.Rec, rng *rand.Rand, n int) {
	g := gram.Load(grammar.BQL())
	_, ma := g.MinLens()
	caps := []int{0, 1, 64}
	for i := 0; i < n; i++ {
		t := g.RandomTree(rng, "START", 0, 4+rng.Intn(5), ma, 0.2+0.5*rng.Float64())
		text := gram.Render(g.Tokens(t), gram.DefaultChooser(rng))
		if rng.Intn(3) == 0 {
			text = strings.ReplaceAll(text, " ", []string{"\n", "\t", "  "}[rng.Intn(3)])
		}
		switch rng.Intn(4) {
		case 0:
			text = mutate(rng, text)
		case 1:
			text = mutate(rng, mutate(rng, text))
		}
		before := rt.Snapshot()
		toks, ok := c16Basic(r, text, caps)
		if ok {
			c16Variants(r, rng, text, toks)
			if len(toks) >= 3 {
				r.Nontrivial(text)
			}
		}
		if i%50 == 0 {
			if left := leakedLexers(before); left > 0 {
				r.Violation("lexer-goroutine-left", fmt.Sprintf("%d lexer goroutines still alive after their channels were closed", left), text)
			}
		}
		if i == 0 {
			r.Sample(map[string]interface{}{"statement": text, "tokens": len(toks)})
		}
	}
}

func leakedLexers(before rt.GSnap) int {
	n := 0
	for _, g := range rt.Leaked(before, 2e9) {
		if strings.Contains(g.Stack, "bql/lexer") {
			n++
		}
	}
	return n
}

func c16Random(r *rt.Rec, rng *rand.Rand, n int) {
	caps := []int{0, 2}
	for i := 0; i < n; i++ {
		l := rng.Intn(24)
		b := make([]byte, 0, l)
		for len(b) < l {
			switch rng.Intn(4) {
			case 0:
				b = append(b, byte(rng.Intn(256)))
			case 1:
				b = append(b, []byte(string(rune(rng.Intn(0x3000))))...)
			default:
				b = append(b, c16Alphabet[rng.Intn(len(c16Alphabet))]...)
			}
		}
		s := string(b)
		toks, ok := c16Basic(r, s, caps)
		if ok {
			c16Variants(r, rng, s, toks)
			if len(toks) >= 3 {
				r.Nontrivial(s)
			}
		}
	}
}

// c16Parallel: eight goroutines lex the same inputs at the same time; every
// token stream must be the one obtained when nothing else is lexing.
func c16Parallel(r *rt.Rec, rng *rand.Rand, rounds int) {
	g := gram.Load(grammar.BQL())
	_, ma := g.MinLens()
	for round := 0; round < rounds; round++ {
		var inputs []string
		for len(inputs) < 40 {
			t := g.RandomTree(rng, "START", 0, 4+rng.Intn(5), ma, 0.3+0.4*rng.Float64())
			inputs = append(inputs, gram.Render(g.Tokens(t), gram.DefaultChooser(rng)))
			l := gen.HLit(rng, false)
			if s := l.String(); strings.Count(s, `"`) == 2 {
				inputs = append(inputs, s+" "+gen.HPred(rng).String()+" "+flipCase(rng, s))
			}
		}
		want := make([]string, len(inputs))
		for i, in := range inputs {
			toks, _ := gram.Lex(in, 0)
			want[i] = tokString(toks)
		}
		r.Note(fmt.Sprintf("parallel lexers round %d, e.g. %s", round, trim(inputs[0], 120)))
		var wg sync.WaitGroup
		var mu sync.Mutex
		var bad []string
		start := make(chan struct{})
		for w := 0; w < 8; w++ {
			wg.Add(1)
			go func(w int) {
				defer wg.Done()
				<-start
				for k := 0; k < 3*len(inputs); k++ {
					i := (k*7 + w*5) % len(inputs)
					toks, ok := gram.Lex(inputs[i], []int{0, 1, 16}[k%3])
					if got := tokString(toks); !ok || got != want[i] {
						mu.Lock()
						bad = append(bad, fmt.Sprintf("%q: alone %s | in parallel %s", inputs[i], want[i], got))
						mu.Unlock()
						return
					}
				}
			}(w)
		}
		close(start)
		wg.Wait()
		r.Eval(8 * 3 * len(inputs))
		if len(bad) > 0 {
			r.Violation("parallel-lexers", "an input lexed while other lexers were running gives another token stream than when lexed alone", map[string]interface{}{"examples": showAll(bad, 3)})
		}
		r.Nontrivial(fmt.Sprintf("parallel|%d|%s", round, inputs[0]))
	}
}

func init() {
	register(&rt.Check{
		ID:    "C16",
		Level: "exploration",
		Rule: "(a) every string up to length L over a 25-character alphabet (delimiters, quote, backslash, letters forming short keywords, digit, space, newline; L=3 quick, 4 thorough; complete); (b) grammar-derived statements and their character mutations; (c) random UTF-8 incl. invalid bytes; each at channel capacities {0,1,2,64}; (d) printed forms of generated nodes, predicates, bounds, bindings, blank nodes and literals without embedded double quotes; " +
			"monitor: channel closes, exactly one final EOF/Error token, texts embed left-to-right in the input, identical stream for every capacity, kinds stable under case change of keywords/type names and under whitespace change between tokens, printed value = one token with that text, no lexer goroutine left; non-trivial = >=2 non-terminal tokens or an error after >=1 token; enumerated strings distinct by construction, others by text",
		Assume: []string{"whitespace variants only touch whitespace runs lying strictly between two token texts of the baseline embedding", "the '\"^^type:' marker itself is matched case-sensitively and is not part of the claim"},
		Floor:  2000,
		Phases: func(tier string, seed int64) []rt.Phase {
			maxLen, stm, rnd, pr := 3, 6000, 6000, 1500
			if tier == "thorough" {
				maxLen, stm, rnd, pr = 4, 100000, 100000, 30000
			}
			return []rt.Phase{
				{Name: "enumerate", N: len(c16Alphabet) + 1, Exhaustive: true, Run: func(i int, r *rt.Rec) {
					if i == len(c16Alphabet) {
						c16Basic(r, "", []int{0, 1, 2, 64})
						return
					}
					c16Enumerate(r, i, maxLen, gen.Rng(seed, "c16e", i))
				}},
				{Name: "printed", N: 16, Run: func(i int, r *rt.Rec) { c16Printed(r, gen.Rng(seed, "c16p", i), pr/16) }},
				{Name: "statements", N: 16, Run: func(i int, r *rt.Rec) { c16Statements(r, gen.Rng(seed, "c16s", i), stm/16) }},
				{Name: "random", N: 16, Run: func(i int, r *rt.Rec) { c16Random(r, gen.Rng(seed, "c16r", i), rnd/16) }},
				{Name: "parallel-lexers", N: 8, Procs: 16, Run: func(i int, r *rt.Rec) { c16Parallel(r, gen.Rng(seed, "c16q", i), pr/300) }},
				{Name: "parallel-lexers-race", N: 4, Race: true, Procs: 16, Run: func(i int, r *rt.Rec) { c16Parallel(r, gen.Rng(seed, "c16qr", i), 1+pr/3000) }},
			}
		},
	})
}
