package checks

import (
	"context"
	"fmt"
	"math"
	"math/rand"
	"strings"
	"time"

	"bwverif/bq"
	"bwverif/cv"
	"bwverif/gen"
	"bwverif/rt"

	"github.com/google/badwolf/triple"
)

// optionalClass is the syntactic class of an OPTIONAL case.
func optionalClass(q *bq.Query) string {
	fs := map[string]bool{}
	seen := map[string]bool{}
	for _, c := range q.Clauses {
		if c.Optional {
			shared := 0
			for _, b := range uniq(c.Bindings()) {
				if seen[b] {
					shared++
				}
			}
			switch {
			case len(c.Bindings()) == 0:
				fs["no-bindings"] = true
			case shared == 0:
				fs["disjoint"] = true
			default:
				fs["shared"] = true
			}
			if c.S.Const() && c.P.Const() && c.O.Const() {
				fs["fully-specified"] = true
			}
			if c.SType+c.SID+c.PID+c.PAt+c.OType+c.OID+c.OAt != "" || c.P.Kind == bq.KPBind || c.O.Kind == bq.KPBind {
				fs["extraction"] = true
			}
		}
		for _, b := range c.Bindings() {
			seen[b] = true
		}
	}
	var names []string
	for f := range fs {
		names = append(names, f)
	}
	sortStrings(names)
	return "optional:" + strings.Join(names, "+")
}

func uniq(xs []string) []string {
	m := map[string]bool{}
	var res []string
	for _, x := range xs {
		if !m[x] {
			m[x] = true
			res = append(res, x)
		}
	}
	return res
}

func c10Run(r *rt.Rec, rng *rand.Rand, n int) {
	ctx := context.Background()
	shapes := gen.ReducedShapes()
	friendly := gen.FriendlyShapes()
	var data bq.Data
	for i := 0; i < n; i++ {
		if i%25 == 0 {
			if rng.Intn(3) == 0 {
				data = gen.DataSet(rng, 1+rng.Intn(2), 8+rng.Intn(14), false)
			} else {
				data = gen.DenseDataSet(rng, 1+rng.Intn(2), 10+rng.Intn(14), false)
			}
		}
		all := gen.AllTriples(data)
		graphs := gen.GraphVars[:len(data)]
		ps := shapes
		if rng.Intn(4) != 0 {
			ps = friendly
		}
		cs := gen.RandomPattern(rng, ps, all, 1+rng.Intn(2))
		mand := len(cs)
		nOpt := 1 + rng.Intn(3)
		if rng.Intn(5) == 0 {
			// the first OPTIONAL clause takes the limits of its predicate bound
			// from time bindings of the mandatory part ("id"@[?lo,?hi]): every
			// row then looks up its own window
			if cs2, ok := gen.AddBoundAlias(rng, cs); ok {
				cs = cs2
				mand = len(cs) - 1
				cs[mand].Optional = true
				nOpt--
			}
		}
		for k := 0; k < nOpt; k++ {
			sh := ps[rng.Intn(len(ps))]
			if rng.Intn(8) == 0 {
				// one that matches nothing at all
				sh.S = 1 // absent subject
			}
			c := sh.Build(all, rng.Intn(1000), fmt.Sprintf("o%d", k+1))
			c, _ = gen.SharePos(rng, cs, c, []int{0, 1, 1, 1, 2}[rng.Intn(5)])
			// now and then the clause also shares a time binding (AT ?t) with an
			// earlier clause: the anchors then have to denote the same instant,
			// however they are spelled
			if rng.Intn(3) == 0 {
				var earlierAt []string
				for _, e := range cs {
					for _, b := range []string{e.PAt, e.OAt} {
						if b != "" {
							earlierAt = append(earlierAt, b)
						}
					}
				}
				if len(earlierAt) > 0 {
					b1 := earlierAt[rng.Intn(len(earlierAt))]
					if c.PAt != "" && c.PAt != b1 {
						c = gen.RenameBinding(c, c.PAt, b1)
					} else if c.OAt != "" && c.OAt != b1 {
						c = gen.RenameBinding(c, c.OAt, b1)
					}
				}
			}
			c.Optional = true
			cs = append(cs, c)
		}
		q := gen.SelectAll(cs, graphs)
		if len(q.Vars) == 0 {
			continue
		}
		class := optionalClass(q)
		rows := compareSelect(ctx, r, q, data, class, []int{0, 2}[rng.Intn(2)])
		// metamorphic floor, needs no reference: projecting the result on the
		// bindings of the mandatory part gives exactly the rows of the query
		// without its OPTIONAL clauses (as sets): OPTIONAL never removes rows
		mq := gen.SelectAll(cs[:mand], graphs)
		if len(mq.Vars) > 0 && rows >= 0 {
			st := bq.NewStore(ctx, data)
			full, _, err1 := bq.Run(ctx, st, q.Text(), 0, 10)
			base, _, err2 := bq.Run(ctx, st, mq.Text(), 0, 10)
			r.Eval(1)
			if err1 == nil && err2 == nil && full != nil && base != nil {
				got := cv.Dedup(bq.TableRows(full, mq.OutBindings()))
				want := cv.Dedup(bq.TableRows(base, mq.OutBindings()))
				a, b := cv.MultisetDiff(want, got)
				if len(a) > 0 || len(b) > 0 {
					mode := "removes-rows"
					if len(a) == 0 {
						mode = "adds-rows"
					}
					r.Violation("optional-"+mode+"/"+class, fmt.Sprintf("the OPTIONAL clauses change which solutions of the mandatory part appear: %d lost, %d new", len(a), len(b)),
						map[string]interface{}{"statement": q.Text(), "without_optional": mq.Text(), "data": bq.DataStrings(data), "lost": showAll(a, 4), "new": showAll(b, 4)})
				}
			}
		}
		if rows > 0 {
			// non-trivial: at least one left row with a match and one without
			lo, hi := q.Bounds()
			left := bq.Solve(cs[:mand], graphs, data, lo, hi)
			withM, withoutM := false, false
			for _, e := range left {
				ext := bq.Solve(cs[mand:mand+1], graphs, data, lo, hi)
				_ = ext
				m := false
				for _, g := range graphs {
					for _, t := range data[g] {
						if _, ok := bq.Match(cs[mand], t, e, lo, hi); ok {
							m = true
						}
					}
				}
				if m {
					withM = true
				} else {
					withoutM = true
				}
			}
			if withM && withoutM {
				r.Nontrivial(q.Text())
			}
		}
		if i == 0 {
			r.Sample(map[string]interface{}{"statement": q.Text(), "reference_rows": rows})
		}
	}
}

// c10SharedAnchor: the OPTIONAL clause shares a time binding (AT ?t) with an
// earlier clause, and the data spells equal instants in several ways: UTC, a
// fixed offset, and one zone value per triple (as a parser produces them).
func c10SharedAnchor(r *rt.Rec, rng *rand.Rand, n int) {
	ctx := context.Background()
	for i := 0; i < n; i++ {
		spell := func(t time.Time) time.Time {
			switch rng.Intn(4) {
			case 0:
				return t
			case 1:
				return t.In(time.FixedZone("", 3600))
			case 2:
				return t.In(time.FixedZone("", 3*3600+27*60))
			}
			return t.In(time.FixedZone("", -5*3600))
		}
		var ts []*triple.Triple
		seen := map[string]bool{}
		for k := 0; k < 8+rng.Intn(8); k++ {
			s := gen.VNodes[rng.Intn(3)]
			id := []string{"p", "q"}[rng.Intn(2)]
			t := gen.MustTriple(s, gen.MustTemp(id, spell(gen.Times[rng.Intn(3)])), triple.NewNodeObject(gen.VNodes[rng.Intn(len(gen.VNodes))]))
			if rng.Intn(4) == 0 {
				t = gen.MustTriple(s, gen.MustImm(id), triple.NewPredicateObject(gen.MustTemp("r", spell(gen.Times[rng.Intn(3)]))))
			}
			if k := cv.Triple(t); !seen[k] {
				seen[k] = true
				ts = append(ts, t)
			}
		}
		data := bq.Data{"?g1": ts}
		first := bq.Clause{S: bq.B("?s"), P: bq.B("?p"), PAt: "?t", O: bq.B("?o")}
		if rng.Intn(3) == 0 {
			first = bq.Clause{S: bq.B("?s"), P: bq.B("?p"), O: bq.B("?o"), OAt: "?t"}
		}
		opt := bq.Clause{Optional: true, S: bq.B("?s"), P: bq.B("?p2"), PAt: "?t", O: bq.B("?o2")}
		switch rng.Intn(4) {
		case 0:
			opt.S = bq.B("?s2")
		case 1:
			opt = bq.Clause{Optional: true, S: bq.B("?s2"), P: bq.B("?p2"), O: bq.B("?o2"), OAt: "?t"}
		case 2:
			opt.P = bq.P(gen.MustImm([]string{"p", "q"}[rng.Intn(2)]))
			opt.P = bq.B("?p2")
			opt.O = bq.N(gen.VNodes[rng.Intn(len(gen.VNodes))])
		}
		class := "optional:shared-anchor"
		if i%4 == 3 {
			// the shared binding holds a literal instead, unusual floats included
			fl := []float64{math.NaN(), math.Inf(1), math.Copysign(0, -1), 0, 1.5}
			for k := 0; k < 6; k++ {
				l := gen.MustLitF(fl[rng.Intn(len(fl))])
				t := gen.MustTriple(gen.VNodes[rng.Intn(3)], gen.MustImm([]string{"p", "q"}[rng.Intn(2)]), triple.NewLiteralObject(l))
				if rng.Intn(3) == 0 {
					t = gen.MustTriple(gen.VNodes[rng.Intn(3)], gen.MustTemp("q", gen.Times[rng.Intn(3)]), triple.NewLiteralObject(l))
				}
				if k := cv.Triple(t); !seen[k] {
					seen[k] = true
					ts = append(ts, t)
				}
			}
			data = bq.Data{"?g1": ts}
			first = bq.Clause{S: bq.B("?s"), P: bq.B("?p"), O: bq.B("?o")}
			opt = bq.Clause{Optional: true, S: bq.B("?s2"), P: bq.B("?p2"), O: bq.B("?o")}
			if rng.Intn(2) == 0 {
				opt.P = bq.PB("q", "?t2")
			}
			class = "optional:shared-literal"
		}
		q := gen.SelectAll([]bq.Clause{first, opt}, []string{"?g1"})
		if rows := compareSelect(ctx, r, q, data, class, []int{0, 2}[rng.Intn(2)]); rows > 0 {
			r.Nontrivial(q.Text() + "|" + strings.Join(bq.DataStrings(data)["?g1"], ";"))
		}
	}
}

func init() {
	register(&rt.Check{
		ID:    "C10",
		Level: "exploration",
		Rule: "random data x patterns of 1-2 mandatory clauses followed by 1-3 OPTIONAL clauses: sharing 0, 1 or 2 subject/predicate/object bindings with what precedes (also with bindings introduced by an earlier OPTIONAL clause), fully specified with and without alias, with TYPE/ID/AT/@[?t] extractions that may not apply (always fresh bindings), clauses that match nothing at all; " +
			"oracle: reference evaluator with left-outer-join semantics (rows compared as multisets, NULL distinct from every value) plus the reference-free floor 'projection on the mandatory bindings == rows of the query without OPTIONAL clauses'; non-trivial = some left row has a match of the first OPTIONAL clause and some has none; distinct by statement text",
		Assume: []string{"Appendix A: inside an OPTIONAL clause an inapplicable extraction yields NULL and the triple still matches (docs/bql.md)", "extraction bindings inside OPTIONAL clauses are fresh"},
		Floor:  100,
		Phases: func(tier string, seed int64) []rt.Phase {
			n := 2560
			if tier == "thorough" {
				n = 40000
			}
			return []rt.Phase{
				{Name: "shared-anchor", N: 8, Run: func(i int, r *rt.Rec) { c10SharedAnchor(r, gen.Rng(seed, "c10a", i), n/64) }},
				{Name: "optional", N: 32, Run: func(i int, r *rt.Rec) { c10Run(r, gen.Rng(seed, "c10", i), n/32) }},
			}
		},
	})
}
