package checks

import (
	"fmt"
	"math/rand"
	"sort"
	"strings"
	"sync"
	"time"

	"bwverif/cv"
	"bwverif/gen"
	"bwverif/gram"
	"bwverif/rt"

	"github.com/google/badwolf/bql/grammar"
	"github.com/google/badwolf/bql/lexer"
	"github.com/google/badwolf/bql/semantic"
)

func tstr(t *time.Time) string {
	if t == nil {
		return "-"
	}
	return cv.Instant(*t)
}

// fingerprint renders the meaning of a parsed statement through exported
// accessors only.
func fingerprint(st *semantic.Statement) string {
	var sb strings.Builder
	fmt.Fprintf(&sb, "type=%v\ngraphs=%q\nin=%q\nout=%q\n", st.Type(), st.GraphNames(), st.InputGraphNames(), st.OutputGraphNames())
	var data []string
	for _, t := range st.Data() {
		data = append(data, cv.Triple(t))
	}
	fmt.Fprintf(&sb, "data=%q\n", data)
	for _, c := range st.GraphPatternClauses() {
		if c == nil {
			sb.WriteString("clause=nil\n")
			continue
		}
		s, p, o := "-", "-", "-"
		if c.S != nil {
			s = cv.Node(c.S)
		}
		if c.P != nil {
			p = cv.Pred(c.P)
		}
		if c.O != nil {
			o = cv.Obj(c.O)
		}
		fmt.Fprintf(&sb, "clause opt=%v S=%s/%s/%s/%s/%s P=%s/%s/%s/%s/%s/%s/%s/%s/%s/%s/%s/%v O=%s/%s/%s/%s/%s/%s/%s/%s/%s/%s/%s/%s/%v\n",
			c.Optional, s, c.SBinding, c.SAlias, c.STypeAlias, c.SIDAlias,
			p, c.PID, c.PBinding, c.PAlias, c.PIDAlias, c.PAnchorBinding, c.PAnchorAlias, tstr(c.PLowerBound), tstr(c.PUpperBound), c.PLowerBoundAlias, c.PUpperBoundAlias, c.PTemporal,
			o, c.OBinding, c.OAlias, c.OID, c.OTypeAlias, c.OIDAlias, c.OAnchorBinding, c.OAnchorAlias, tstr(c.OLowerBound), tstr(c.OUpperBound), c.OLowerBoundAlias, c.OUpperBoundAlias, c.OTemporal)
	}
	for _, f := range st.FilterClauses() {
		if f != nil {
			fmt.Fprintf(&sb, "filter=%v/%s/%s\n", f.Operation, f.Binding, f.Value)
		}
	}
	for _, p := range st.Projections() {
		fmt.Fprintf(&sb, "proj=%s/%s/%v/%v\n", p.Binding, p.Alias, p.OP, p.Modifier)
	}
	fmt.Fprintf(&sb, "group=%q\norder=%s\n", st.GroupBy(), st.OrderBy().String())
	for _, h := range st.HavingExpression() {
		if h.Token() != nil {
			fmt.Fprintf(&sb, "having=%v:%q\n", h.Token().Type, h.Token().Text)
		}
	}
	lo := st.GlobalLookupOptions()
	fmt.Fprintf(&sb, "bounds=%s..%s limit=%v/%d\n", tstr(lo.LowerAnchor), tstr(lo.UpperAnchor), st.HasLimit(), st.Limit())
	for _, c := range st.ConstructClauses() {
		s := "-"
		if c.S != nil {
			s = cv.Node(c.S)
		}
		fmt.Fprintf(&sb, "construct S=%s/%s\n", s, c.SBinding)
		for _, po := range c.PredicateObjectPairs() {
			p, o := "-", "-"
			if po.P != nil {
				p = cv.Pred(po.P)
			}
			if po.O != nil {
				o = cv.Obj(po.O)
			}
			fmt.Fprintf(&sb, "  pair P=%s/%s/%s/%s/%v O=%s/%s/%s/%s/%v\n", p, po.PBinding, po.PID, po.PAnchorBinding, po.PTemporal, o, po.OBinding, po.OID, po.OAnchorBinding, po.OTemporal)
		}
	}
	return sb.String()
}

type parsers struct {
	plain *grammar.Parser
}

func newPlain() *grammar.Parser {
	p, err := grammar.NewParser(grammar.BQL())
	if err != nil {
		panic(err)
	}
	return p
}

func newSemantic() *grammar.Parser {
	p, err := grammar.NewParser(grammar.SemanticBQL())
	if err != nil {
		panic(err)
	}
	return p
}

// c18Compare judges one text: real plain parser vs reference recogniser, and
// semantic-accepts implies plain-accepts. Returns (realisable, accepted).
func c18Compare(r *rt.Rec, g gram.G, plain *grammar.Parser, text string, want []lexer.TokenType, sem bool) (bool, bool) {
	r.Note(text)
	toks, ok := gram.Lex(text, 0)
	if !ok {
		r.Violation("lexer-no-termination", "lexer did not finish", text)
		return false, false
	}
	kinds := gram.Kinds(toks)
	if want != nil && !gram.SameKinds(kinds, want) {
		return false, false
	}
	r.Eval(1)
	refOK, _ := g.Recognize(kinds)
	var err error
	if guard(r, "Parser.Parse", text, func() { err = plain.Parse(grammar.NewLLk(text, 1), &semantic.Statement{}) }) {
		return true, false
	}
	if refOK != (err == nil) {
		mode := "accepts-underivable"
		cls := "other"
		if refOK {
			mode = "rejects-derivable"
		} else {
			// is a proper prefix of the token sequence a whole statement?
			for n := len(kinds) - 1; n > 0; n-- {
				pre := append(append([]lexer.TokenType{}, kinds[:n]...), lexer.ItemEOF)
				if ok, _ := g.Recognize(pre); ok {
					cls = "trailing-tokens-after-statement"
					break
				}
			}
		}
		r.Violation("parser/"+mode+"/"+cls, fmt.Sprintf("Parser.Parse err=%v but the grammar %s the token sequence %s", err, map[bool]string{true: "derives", false: "does not derive"}[refOK], gram.KindsString(kinds)), text)
	}
	if sem {
		var serr error
		if !guard(r, "Parser.Parse(semantic)", text, func() { serr = newSemantic().Parse(grammar.NewLLk(text, 1), &semantic.Statement{}) }) {
			if serr == nil && err != nil {
				r.Violation("semantic-accepts-more", "SemanticBQL accepts a statement that BQL rejects", text)
			}
			if serr == nil && !refOK {
				cls := "other"
				for n := len(kinds) - 1; n > 0; n-- {
					pre := append(append([]lexer.TokenType{}, kinds[:n]...), lexer.ItemEOF)
					if ok, _ := g.Recognize(pre); ok {
						cls = "trailing-tokens-after-statement"
						break
					}
				}
				r.Violation("semantic/accepts-underivable/"+cls, "SemanticBQL accepts a token sequence the grammar does not derive: "+gram.KindsString(kinds), text)
			}
			if serr == nil {
				r.Count("semantic_accepted", 1)
			}
		}
	}
	return true, err == nil
}

func tokenMutate(rng *rand.Rand, kinds []lexer.TokenType) []lexer.TokenType {
	all := gram.AllKinds()
	k := append([]lexer.TokenType{}, kinds...)
	switch rng.Intn(5) {
	case 0:
		if len(k) > 0 {
			i := rng.Intn(len(k))
			k = append(k[:i], k[i+1:]...)
		}
	case 1:
		i := rng.Intn(len(k) + 1)
		k = append(k[:i], append([]lexer.TokenType{all[rng.Intn(len(all))]}, k[i:]...)...)
	case 2:
		if len(k) > 0 {
			k[rng.Intn(len(k))] = all[rng.Intn(len(all))]
		}
	case 3:
		if len(k) > 1 {
			i := rng.Intn(len(k) - 1)
			k[i], k[i+1] = k[i+1], k[i]
		}
	default: // extra tokens after the final ;
		n := 1 + rng.Intn(3)
		for j := 0; j < n; j++ {
			k = append(k, all[rng.Intn(len(all))])
		}
	}
	return k
}

func c18Sentences(r *rt.Rec, rng *rand.Rand, n int) {
	g := gram.Load(grammar.BQL())
	_, ma := g.MinLens()
	plain := newPlain()
	for i := 0; i < n; i++ {
		t := g.RandomTree(rng, "START", 0, 4+rng.Intn(6), ma, 0.2+0.6*rng.Float64())
		kinds := g.Tokens(t)
		text := gram.Render(kinds, gram.DefaultChooser(rng))
		real, acc := c18Compare(r, g, plain, text, kinds, i%4 == 0)
		if real {
			r.Count("sentences", 1)
			if acc {
				r.Nontrivial("s:" + gram.KindsString(kinds))
			}
		} else {
			r.Count("unrealisable", 1)
		}
		// a whole statement followed by text the lexer cannot read (its token
		// sequence continues with an ERROR token) or by one more token
		if real && acc && i%3 == 0 {
			tails := []string{"foo", "/u<c", `"abc`, "_x", `"1"^^type:zzz`, "?", "@", "\x00", `"p"@[`, "2016-01-01T00:00:00Z", ";", "select"}
			c18Compare(r, g, plain, text+" "+tails[rng.Intn(len(tails))], nil, true)
			r.Count("statements_with_unreadable_tail", 1)
		}
		// single-token mutations
		for m := 0; m < 3; m++ {
			mk := tokenMutate(rng, kinds)
			mtext := gram.Render(mk, gram.DefaultChooser(rng))
			real, _ := c18Compare(r, g, plain, mtext, mk, m == 0)
			if real {
				r.Count("mutations", 1)
				if len(mk) >= 3 {
					r.Nontrivial("m:" + gram.KindsString(mk))
				}
			} else {
				r.Count("unrealisable", 1)
			}
		}
		if i == 0 {
			r.Sample(map[string]interface{}{"sentence": text})
		}
	}
}

// c18Enumerate: all token sequences of exactly the given lengths with a fixed
// first token.
func c18Enumerate(r *rt.Rec, first lexer.TokenType, maxLen int) {
	g := gram.Load(grammar.BQL())
	plain := newPlain()
	all := gram.AllKinds()
	seq := []lexer.TokenType{first}
	nt := 0
	var rec func()
	rec = func() {
		text := gram.Render(seq, nil)
		real, acc := c18Compare(r, g, plain, text, seq, false)
		if real {
			if acc || len(seq) >= 3 {
				nt++
			}
		} else {
			r.Count("unrealisable", 1)
		}
		if len(seq) >= maxLen {
			return
		}
		for _, k := range all {
			seq = append(seq, k)
			rec()
			seq = seq[:len(seq)-1]
		}
	}
	rec()
	r.NontrivialDistinct(nt)
}

// c18Targets builds statements of all eight kinds that the semantic parser
// accepts on a fresh parser.
func c18Targets(rng *rand.Rand) []string {
	base := []string{
		`select ?a, ?b from ?g where { ?a "p"@[] ?b } ;`,
		`select ?a as ?x, count(distinct ?b) as ?n from ?g, ?h where { ?a "p"@[?t] ?b . ?b ?q ?c } group by ?x order by ?x desc having ?n > "1"^^type:int64 before 2016-01-01T00:00:00Z limit "5"^^type:int64 ;`,
		`select ?s from ?g where { ?s ?p ?o . optional { ?o "q"@[,] ?z } } between 2015-01-01T00:00:00Z,2017-01-01T00:00:00Z ;`,
		`insert data into ?g { /u<a> "p"@[] /u<b> . /u<b> "q"@[2016-01-01T00:00:00Z] "5"^^type:int64 } ;`,
		`insert data into ?g, ?h { /u<c> "_r"@[] "abc"^^type:text } ;`,
		`delete data from ?g { /u<a> "p"@[] /u<b> } ;`,
		`delete data from ?g { /t<a b> "q"@[] "p"@[] . /u<a> "p"@[] "true"^^type:bool } ;`,
		`create graph ?g, ?h ;`,
		`drop graph ?g ;`,
		`construct { ?a "q"@[] ?b } into ?h from ?g where { ?a "p"@[] ?b } ;`,
		`construct { ?a "q"@[?t] ?b ; "w"@[] /u<a> . _:v "z"@[] ?a } into ?h from ?g where { ?a "p"@[?t] ?b } ;`,
		`deconstruct { ?a "p"@[] ?b } in ?h from ?g where { ?a "p"@[] ?b } ;`,
		`show graphs ;`,
		`select ?a from ?g where { ?a ID ?i TYPE ?y "p"@[] ?o AS ?oo . /u<a> ?p AS ?pp ID ?pi ?x } after 2015-01-01T00:00:00Z ;`,
		`select sum(?o) as ?s, ?a from ?g where { ?a "p"@[] ?o } group by ?a ;`,
	}
	// statements that repeat a name inside one list (ORDER BY / GROUP BY keys,
	// projections, graphs): hooks that de-duplicate keep per-statement sets
	base = append(base,
		`select ?a, ?b from ?g where { ?a "p"@[] ?b } order by ?a, ?b, ?a ;`,
		`select ?c, ?a from ?g where { ?a "p"@[] ?c } order by ?c desc, ?a, ?c desc ;`,
		`select ?b, ?c from ?g where { ?b "p"@[] ?c } order by ?b asc, ?b asc, ?c ;`,
		`select ?a, count(?b) as ?n from ?g where { ?a "p"@[] ?b } group by ?a order by ?n, ?a, ?n ;`,
		`select ?a, ?a as ?b from ?g, ?g where { ?a "p"@[] ?c . ?a "p"@[] ?c } ;`,
		`select ?a from ?g where { ?a "p"@[] ?b } having (?a = /u<a>) or (?a = /u<b>) and not ?b = ?a ;`,
		`insert data into ?g, ?g { /u<a> "p"@[] /u<b> . /u<a> "p"@[] /u<b> } ;`,
	)
	// generated statements of every kind that a fresh semantic parser accepts
	data := gen.AllTriples(c08Data)
	for tries, n := 0, 0; tries < 400 && n < 40; tries++ {
		t := gen.RandomStatement(rng, data)
		if newSemantic().Parse(grammar.NewLLk(t, 1), &semantic.Statement{}) == nil {
			base = append(base, t)
			n++
		}
	}
	return base
}

// c18Prefixes derives earlier statements: accepted ones, truncations at every
// token position, token replacements.
func c18Prefixes(rng *rand.Rand, targets []string) []string {
	var res []string
	for _, t := range targets {
		res = append(res, t)
		toks, _ := gram.Lex(t, 0)
		spans, ok := embed(t, toks)
		if !ok {
			continue
		}
		for i := 1; i < len(toks)-1; i++ {
			res = append(res, t[:spans[i].start]) // truncation before token i
		}
		for k := 0; k < 6; k++ {
			i := rng.Intn(len(toks) - 1)
			repl := []string{";", "?zz", "/u<q>", `"k"@[]`, "{", "}", ".", "as", "id", `"9"^^type:int64`, "where", "having", ","}[rng.Intn(13)]
			res = append(res, t[:spans[i].start]+repl+t[spans[i].end:])
		}
	}
	return res
}

func c18Stateless(r *rt.Rec, rng *rand.Rand, rounds int) {
	targets := c18Targets(rng)
	prefixes := c18Prefixes(rng, targets)
	// fresh-parser baseline of every target
	type base struct {
		ok bool
		fp string
	}
	fresh := map[string]base{}
	for _, t := range targets {
		st := &semantic.Statement{}
		err := newSemantic().Parse(grammar.NewLLk(t, 1), st)
		fresh[t] = base{err == nil, fingerprint(st)}
		if err != nil {
			r.Violation("target-rejected", "a target statement is rejected by a fresh semantic parser: "+err.Error(), t)
		}
	}
	for i := 0; i < rounds; i++ {
		p := newSemantic()
		n := 1 + rng.Intn(4)
		var hist []string
		rejectedInClause := false
		for k := 0; k < n; k++ {
			pre := prefixes[rng.Intn(len(prefixes))]
			hist = append(hist, pre)
			r.Note("prefix: " + pre)
			var err error
			guard(r, "Parser.Parse(prefix)", pre, func() { err = p.Parse(grammar.NewLLk(pre, 1), &semantic.Statement{}) })
			if err != nil && strings.Contains(pre, "{") {
				rejectedInClause = true
			}
		}
		t := targets[rng.Intn(len(targets))]
		r.Note("target after prefixes: " + t)
		st := &semantic.Statement{}
		var err error
		if guard(r, "Parser.Parse(target)", t, func() { err = p.Parse(grammar.NewLLk(t, 1), st) }) {
			continue
		}
		r.Eval(1)
		b := fresh[t]
		w := map[string]interface{}{"earlier_statements": hist, "target": t}
		kind := strings.Fields(t)[0]
		if (err == nil) != b.ok {
			w["error"] = fmt.Sprint(err)
			r.Violation("stateful/accept-changed/"+kind, fmt.Sprintf("accept/reject of the target depends on earlier statements (fresh parser ok=%v, reused parser err=%v)", b.ok, err), w)
		} else if err == nil && fingerprint(st) != b.fp {
			w["fresh"], w["reused"] = b.fp, fingerprint(st)
			r.Violation("stateful/meaning-changed/"+kind, "the meaning extracted from the target depends on earlier statements", w)
		}
		if rejectedInClause {
			r.Nontrivial(strings.Join(hist, "\x00") + "\x00" + t)
		}
		if i == 0 {
			r.Sample(w)
		}
	}
}

// c18Parallel: several goroutines, each with a parser of its own, parse the
// target statements at the same time; accept/reject and the meaning fingerprint
// of every statement must be what a fresh parser gives when nothing else runs.
func c18Parallel(r *rt.Rec, rng *rand.Rand, rounds int) {
	targets := c18Targets(rng)
	type base struct {
		ok bool
		fp string
	}
	fresh := make([]base, len(targets))
	for i, t := range targets {
		st := &semantic.Statement{}
		err := newSemantic().Parse(grammar.NewLLk(t, 1), st)
		fresh[i] = base{err == nil, fingerprint(st)}
	}
	const workers = 8
	for round := 0; round < rounds; round++ {
		r.Note(fmt.Sprintf("parallel parsers round %d", round))
		order := make([][]int, workers)
		for w := range order {
			for k := 0; k < 30; k++ {
				order[w] = append(order[w], rng.Intn(len(targets)))
			}
		}
		var wg sync.WaitGroup
		var mu sync.Mutex
		type bad struct {
			t, what string
		}
		var bads []bad
		start := make(chan struct{})
		for w := 0; w < workers; w++ {
			wg.Add(1)
			go func(w int) {
				defer wg.Done()
				p := newSemantic()
				<-start
				for _, ti := range order[w] {
					if w%2 == 1 {
						p = newSemantic() // every other worker takes a new parser per statement
					}
					st := &semantic.Statement{}
					err := p.Parse(grammar.NewLLk(targets[ti], 1), st)
					what := ""
					if (err == nil) != fresh[ti].ok {
						what = fmt.Sprintf("accepted alone=%v, in parallel err=%v", fresh[ti].ok, err)
					} else if err == nil && fingerprint(st) != fresh[ti].fp {
						what = "meaning differs: alone " + fresh[ti].fp + " | in parallel " + fingerprint(st)
					}
					if what != "" {
						mu.Lock()
						bads = append(bads, bad{targets[ti], what})
						mu.Unlock()
						return
					}
				}
			}(w)
		}
		close(start)
		wg.Wait()
		r.Eval(workers * 30)
		for _, b := range bads {
			r.Violation("parallel-parsers/"+strings.Fields(b.t)[0], "a statement parsed while other parsers (each with its own Parser and grammar) were parsing was accepted / understood differently than when parsed alone", map[string]string{"statement": b.t, "difference": trim(b.what, 600)})
		}
		r.Nontrivial(fmt.Sprintf("parallel|%d|%v", round, order[0][:5]))
	}
}

// c18LongSession: one parser serves thousands of statements, most of them
// rejected (truncations, replacements), some of them large; at intervals the
// targets are parsed on it and must be accepted and understood as on a fresh
// parser. State that only builds up over a long life of a parser shows here.
func c18LongSession(r *rt.Rec, rng *rand.Rand, statements int) {
	targets := c18Targets(rng)
	prefixes := c18Prefixes(rng, targets)
	// large statements, whole and cut short near their end
	var sb strings.Builder
	sb.WriteString("insert data into ?g {")
	for i := 0; i < 300; i++ {
		if i > 0 {
			sb.WriteString(" .")
		}
		fmt.Fprintf(&sb, ` /u<s%d> "p"@[] /u<o%d>`, i, i)
	}
	big := sb.String() + " } ;"
	// short statements rejected because no alternative of a production starts with
	// the token at hand (the cheapest kind of rejection, so there are many of them)
	for _, bad := range []string{"drop ?a ;", "create ?a ;", "select from ?g ;", "insert into ?g { } ;", "select ?a from ?g where { ?a } ;", "show ;", "delete data ?g ;", "construct { } ;", ";", "?a ;"} {
		for k := 0; k < 12; k++ {
			prefixes = append(prefixes, bad)
		}
	}
	prefixes = append(prefixes, big, big[:len(big)-4], big[:len(big)/2], big[:len(big)-40]+" ?x ;")
	type base struct {
		ok bool
		fp string
	}
	fresh := make([]base, len(targets))
	for i, t := range targets {
		st := &semantic.Statement{}
		err := newSemantic().Parse(grammar.NewLLk(t, 1), st)
		fresh[i] = base{err == nil, fingerprint(st)}
	}
	p := newSemantic()
	rejected := 0
	for n := 0; n < statements; n++ {
		pre := prefixes[rng.Intn(len(prefixes))]
		if n%9 == 0 {
			pre = prefixes[len(prefixes)-1-rng.Intn(4)] // the large ones, now and then
		}
		var err error
		if guard(r, "Parser.Parse(long session)", trim(pre, 200), func() { err = p.Parse(grammar.NewLLk(pre, 1), &semantic.Statement{}) }) {
			return
		}
		if err != nil {
			rejected++
		}
		if n%50 != 49 {
			continue
		}
		ti := rng.Intn(len(targets))
		r.Note(fmt.Sprintf("long session: target after %d statements (%d rejected): %s", n+1, rejected, targets[ti]))
		st := &semantic.Statement{}
		var terr error
		if guard(r, "Parser.Parse(target)", targets[ti], func() { terr = p.Parse(grammar.NewLLk(targets[ti], 1), st) }) {
			return
		}
		r.Eval(1)
		w := map[string]interface{}{"statements_parsed_before": n + 1, "rejected_before": rejected, "target": targets[ti]}
		kind := strings.Fields(targets[ti])[0]
		if (terr == nil) != fresh[ti].ok {
			w["error"] = fmt.Sprint(terr)
			r.Violation("stateful/long-session/accept-changed/"+kind, fmt.Sprintf("after %d statements on one parser (%d rejected) the target is accepted=%v, a fresh parser says %v", n+1, rejected, terr == nil, fresh[ti].ok), w)
			return
		} else if terr == nil && fingerprint(st) != fresh[ti].fp {
			w["fresh"], w["reused"] = fresh[ti].fp, fingerprint(st)
			r.Violation("stateful/long-session/meaning-changed/"+kind, "after a long session on one parser the meaning extracted from the target differs from a fresh parser's", w)
			return
		}
	}
	r.Count("long_session_statements", statements)
	r.Nontrivial(fmt.Sprintf("long-session|%d|%d", statements, rejected))
}

func init() {
	register(&rt.Check{
		ID:    "C18",
		Level: "exploration",
		Rule: "(a) sentences derived at random from the exported grammar table, (b) their single-token mutations (delete, insert, replace, swap, extra tokens after the final ';'), (c) every token sequence up to length L over the 55 token kinds (L=3 quick, 4 thorough; complete), rendered to text and judged on the kinds the real lexer returns (sequences the lexer cannot produce are skipped as unrealisable); (a2) accepted sentences followed by a tail the lexer cannot read; (f) long sessions: thousands of statements (most rejected, some of 300 triples, whole and cut short) on one parser with the targets checked every 50 statements; (e) eight goroutines, each with its own parser (reused or fresh per statement), parsing the targets at the same time, also under -race; (d) target statements of all eight kinds (hand-written ones incl. lists that repeat a name, and 40 generated ones per shard) parsed on a reused Parser after 1-4 earlier statements (accepted, truncated at every token position, token-replaced); " +
			"oracle: an independent table interpreter with explicit end-of-input for accept/reject, SemanticBQL accepts => BQL accepts and derivable, and an accessor-level meaning fingerprint equal to that on a fresh parser; non-trivial = accepted or rejected after >=3 tokens; (d) an earlier statement was rejected inside a clause; distinct by kind sequence / history",
		Assume: []string{"the reference recogniser uses the same greedy predictive choice the property describes", "fingerprint covers every exported accessor of semantic.Statement"},
		Floor:  2000,
		Phases: func(tier string, seed int64) []rt.Phase {
			maxLen, sent, rounds := 3, 5000, 20000
			if tier == "thorough" {
				maxLen, sent, rounds = 4, 50000, 200000
			}
			kinds := gram.AllKinds()
			return []rt.Phase{
				{Name: "sentences", N: 16, Run: func(i int, r *rt.Rec) { c18Sentences(r, gen.Rng(seed, "c18s", i), sent/16) }},
				{Name: "enumerate", N: len(kinds), Exhaustive: true, Run: func(i int, r *rt.Rec) { c18Enumerate(r, kinds[i], maxLen) }},
				{Name: "stateless", N: 16, Run: func(i int, r *rt.Rec) { c18Stateless(r, gen.Rng(seed, "c18d", i), rounds/16) }},
				{Name: "long-session", N: 8, Run: func(i int, r *rt.Rec) { c18LongSession(r, gen.Rng(seed, "c18l", i), 9000+rounds/8) }},
				{Name: "parallel-parsers", N: 8, Procs: 16, Run: func(i int, r *rt.Rec) { c18Parallel(r, gen.Rng(seed, "c18p", i), rounds/2000) }},
				{Name: "parallel-parsers-race", N: 4, Race: true, Procs: 16, Run: func(i int, r *rt.Rec) { c18Parallel(r, gen.Rng(seed, "c18pr", i), rounds/10000) }},
			}
		},
	})
}

var _ = sort.Strings
