// Package gram holds an independent, table-driven view of the BQL grammar: a
// plain-data copy of the exported grammar table, a reference predictive
// recogniser with an explicit end-of-input requirement, a sentence generator
// and a renderer from token kinds to statement text.
package gram

import (
	"math/rand"
	"sort"
	"strings"
	"time"

	"github.com/google/badwolf/bql/grammar"
	"github.com/google/badwolf/bql/lexer"
	"github.com/google/badwolf/bql/semantic"
)

// Elem is a grammar element: a symbol (Sym != "") or a token kind.
type Elem struct {
	Sym string
	Tok lexer.TokenType
}

// G is a plain copy of a grammar table.
type G map[string][][]Elem

// Load copies the exported table through its accessors.
func Load(g *grammar.Grammar) G {
	res := G{}
	for sym, clauses := range *g {
		var alts [][]Elem
		for _, c := range clauses {
			alt := []Elem{}
			for _, e := range c.Elements {
				if e.Symbol() != "" {
					alt = append(alt, Elem{Sym: string(e.Symbol())})
				} else {
					alt = append(alt, Elem{Tok: e.Token()})
				}
			}
			alts = append(alts, alt)
		}
		res[string(sym)] = alts
	}
	return res
}

// Rules returns the sorted rule names.
func (g G) Rules() []string {
	var rs []string
	for r := range g {
		rs = append(rs, r)
	}
	sort.Strings(rs)
	return rs
}

// Fire is one predictive decision: rule and alternative index.
type Fire struct {
	Rule string
	Alt  int
}

// Recognize runs the reference predictive recogniser over the token kinds
// (which must end with ItemEOF or ItemError). It accepts iff START derives the
// sequence up to, and followed by, end of input. It returns every decision
// taken, including empty alternatives.
func (g G) Recognize(toks []lexer.TokenType) (bool, []Fire) {
	pos := 0
	var fired []Fire
	cur := func() lexer.TokenType {
		if pos < len(toks) {
			return toks[pos]
		}
		return lexer.ItemEOF
	}
	var consume func(sym string, depth int) bool
	consume = func(sym string, depth int) bool {
		if depth > 10000 {
			return false
		}
		for ai, alt := range g[sym] {
			if len(alt) == 0 {
				fired = append(fired, Fire{sym, ai})
				return true
			}
			if alt[0].Sym != "" {
				return false
			}
			if cur() == alt[0].Tok {
				fired = append(fired, Fire{sym, ai})
				for _, e := range alt {
					if e.Sym != "" {
						if !consume(e.Sym, depth+1) {
							return false
						}
					} else {
						if cur() != e.Tok {
							return false
						}
						pos++
					}
				}
				return true
			}
		}
		return false
	}
	if !consume("START", 0) {
		return false, fired
	}
	if cur() != lexer.ItemEOF {
		return false, fired
	}
	return true, fired
}

// MinLens computes, by least fixed point, the length of the shortest token
// string each symbol derives (-1: derives nothing) and an alternative that
// achieves it.
func (g G) MinLens() (map[string]int, map[string]int) {
	const inf = 1 << 30
	ml := map[string]int{}
	ma := map[string]int{}
	for r := range g {
		ml[r] = inf
		ma[r] = -1
	}
	for changed := true; changed; {
		changed = false
		for r, alts := range g {
			for ai, alt := range alts {
				n := 0
				for _, e := range alt {
					if e.Sym == "" {
						n++
						continue
					}
					l, ok := ml[e.Sym]
					if !ok || l >= inf {
						n = inf
						break
					}
					n += l
				}
				if n < ml[r] {
					ml[r], ma[r] = n, ai
					changed = true
				}
			}
		}
	}
	// the minimal lengths are unique, the alternative reaching them need not be:
	// take the lowest-numbered one, whatever order the map was walked in
	for r, alts := range g {
		if ml[r] >= inf {
			continue
		}
		for ai, alt := range alts {
			n := 0
			for _, e := range alt {
				if e.Sym == "" {
					n++
				} else if l := ml[e.Sym]; l >= inf {
					n = inf
					break
				} else {
					n += l
				}
			}
			if n == ml[r] {
				ma[r] = ai
				break
			}
		}
	}
	for r, l := range ml {
		if l >= inf {
			ml[r] = -1
		}
	}
	return ml, ma
}

// Reachable returns the symbols reachable from START together with one parent
// occurrence (rule, alt, position) for each.
type Occ struct {
	Rule     string
	Alt, Pos int
}

func (g G) Reachable() (map[string]bool, map[string]Occ) {
	seen := map[string]bool{"START": true}
	par := map[string]Occ{}
	queue := []string{"START"}
	for len(queue) > 0 {
		r := queue[0]
		queue = queue[1:]
		for ai, alt := range g[r] {
			for pi, e := range alt {
				if e.Sym != "" && !seen[e.Sym] {
					seen[e.Sym] = true
					par[e.Sym] = Occ{r, ai, pi}
					queue = append(queue, e.Sym)
				}
			}
		}
	}
	return seen, par
}

// Node is a derivation tree node.
type Node struct {
	Rule string
	Alt  int
	Kids []*Node // one per element; nil for tokens
}

// Tokens flattens a derivation into token kinds (without EOF).
func (g G) Tokens(n *Node) []lexer.TokenType {
	var res []lexer.TokenType
	var walk func(n *Node)
	walk = func(n *Node) {
		for i, e := range g[n.Rule][n.Alt] {
			if e.Sym == "" {
				res = append(res, e.Tok)
			} else {
				walk(n.Kids[i])
			}
		}
	}
	walk(n)
	return res
}

// Fires lists the decisions of a derivation in parse order.
func (g G) Fires(n *Node) []Fire {
	var res []Fire
	var walk func(n *Node)
	walk = func(n *Node) {
		res = append(res, Fire{n.Rule, n.Alt})
		for i, e := range g[n.Rule][n.Alt] {
			if e.Sym != "" {
				walk(n.Kids[i])
			}
		}
	}
	walk(n)
	return res
}

// MinTree expands sym by shortest alternatives.
func (g G) MinTree(sym string, ma map[string]int) *Node {
	n := &Node{Rule: sym, Alt: ma[sym]}
	alt := g[sym][n.Alt]
	n.Kids = make([]*Node, len(alt))
	for i, e := range alt {
		if e.Sym != "" {
			n.Kids[i] = g.MinTree(e.Sym, ma)
		}
	}
	return n
}

// WitnessTree builds the shortest derivation of START that uses alternative
// alt of rule.
func (g G) WitnessTree(rule string, alt int, ma map[string]int, par map[string]Occ) *Node {
	target := &Node{Rule: rule, Alt: alt}
	target.Kids = make([]*Node, len(g[rule][alt]))
	for i, e := range g[rule][alt] {
		if e.Sym != "" {
			target.Kids[i] = g.MinTree(e.Sym, ma)
		}
	}
	cur := target
	for cur.Rule != "START" {
		o := par[cur.Rule]
		p := &Node{Rule: o.Rule, Alt: o.Alt}
		p.Kids = make([]*Node, len(g[o.Rule][o.Alt]))
		for i, e := range g[o.Rule][o.Alt] {
			if e.Sym == "" {
				continue
			}
			if i == o.Pos {
				p.Kids[i] = cur
			} else {
				p.Kids[i] = g.MinTree(e.Sym, ma)
			}
		}
		cur = p
	}
	return cur
}

// Occurrences lists every place (rule, alternative, position) where sym is
// referenced.
func (g G) Occurrences(sym string) []Occ {
	var res []Occ
	for _, r := range g.Rules() {
		for ai, alt := range g[r] {
			for pi, e := range alt {
				if e.Sym == sym {
					res = append(res, Occ{r, ai, pi})
				}
			}
		}
	}
	return res
}

// wrap puts node under the given occurrence of its rule (the other elements of
// that alternative are expanded minimally).
func (g G) wrap(node *Node, o Occ, ma map[string]int) *Node {
	p := &Node{Rule: o.Rule, Alt: o.Alt}
	p.Kids = make([]*Node, len(g[o.Rule][o.Alt]))
	for i, e := range g[o.Rule][o.Alt] {
		if e.Sym == "" {
			continue
		}
		if i == o.Pos {
			p.Kids[i] = node
		} else {
			p.Kids[i] = g.MinTree(e.Sym, ma)
		}
	}
	return p
}

// WitnessTreesInContexts builds derivations of START that use alternative alt
// of rule under every parent occurrence of the rule and every grandparent
// occurrence of that parent (the rest of the way up follows par): a token kind
// that the lexer only produces in some lexical contexts (a TIME after a
// comparison) is realisable under some of them.
func (g G) WitnessTreesInContexts(rule string, alt int, ma map[string]int, par map[string]Occ, reach map[string]bool) []*Node {
	mk := func() *Node {
		t := &Node{Rule: rule, Alt: alt}
		t.Kids = make([]*Node, len(g[rule][alt]))
		for i, e := range g[rule][alt] {
			if e.Sym != "" {
				t.Kids[i] = g.MinTree(e.Sym, ma)
			}
		}
		return t
	}
	climb := func(cur *Node) *Node {
		for cur.Rule != "START" {
			cur = g.wrap(cur, par[cur.Rule], ma)
		}
		return cur
	}
	var res []*Node
	for _, o1 := range g.Occurrences(rule) {
		if !reach[o1.Rule] {
			continue
		}
		n1 := g.wrap(mk(), o1, ma)
		res = append(res, climb(n1))
		for _, o2 := range g.Occurrences(o1.Rule) {
			if !reach[o2.Rule] {
				continue
			}
			res = append(res, climb(g.wrap(g.wrap(mk(), o1, ma), o2, ma)))
		}
	}
	return res
}

// RandomTree derives a random sentence from sym. Beyond maxDepth the shortest
// alternatives are used. force, when non-nil, is consulted first.
func (g G) RandomTree(rng *rand.Rand, sym string, depth, maxDepth int, ma map[string]int, pEmpty float64) *Node {
	alts := g[sym]
	ai := ma[sym]
	if depth < maxDepth {
		// choose among alternatives; bias against / towards the empty one
		var nonEmpty []int
		empty := -1
		for i, a := range alts {
			if len(a) == 0 {
				empty = i
			} else {
				nonEmpty = append(nonEmpty, i)
			}
		}
		if empty >= 0 && (len(nonEmpty) == 0 || rng.Float64() < pEmpty) {
			ai = empty
		} else if len(nonEmpty) > 0 {
			ai = nonEmpty[rng.Intn(len(nonEmpty))]
		}
	}
	n := &Node{Rule: sym, Alt: ai}
	alt := alts[ai]
	n.Kids = make([]*Node, len(alt))
	for i, e := range alt {
		if e.Sym != "" {
			n.Kids[i] = g.RandomTree(rng, e.Sym, depth+1, maxDepth, ma, pEmpty)
		}
	}
	return n
}

// ---------------------------------------------------------------------------
// rendering token kinds to text

var keywordText = map[lexer.TokenType]string{
	lexer.ItemQuery: "select", lexer.ItemInsert: "insert", lexer.ItemDelete: "delete", lexer.ItemCreate: "create",
	lexer.ItemConstruct: "construct", lexer.ItemDeconstruct: "deconstruct", lexer.ItemDrop: "drop", lexer.ItemGraph: "graph",
	lexer.ItemData: "data", lexer.ItemInto: "into", lexer.ItemFrom: "from", lexer.ItemWhere: "where", lexer.ItemAs: "as",
	lexer.ItemType: "type", lexer.ItemID: "id", lexer.ItemAt: "at", lexer.ItemIn: "in", lexer.ItemBefore: "before",
	lexer.ItemAfter: "after", lexer.ItemBetween: "between", lexer.ItemCount: "count", lexer.ItemDistinct: "distinct",
	lexer.ItemSum: "sum", lexer.ItemGroup: "group", lexer.ItemBy: "by", lexer.ItemOrder: "order", lexer.ItemHaving: "having",
	lexer.ItemAsc: "asc", lexer.ItemDesc: "desc", lexer.ItemLimit: "limit", lexer.ItemLBracket: "{", lexer.ItemRBracket: "}",
	lexer.ItemLPar: "(", lexer.ItemRPar: ")", lexer.ItemDot: ".", lexer.ItemSemicolon: ";", lexer.ItemComma: ",",
	lexer.ItemLT: "<", lexer.ItemGT: ">", lexer.ItemEQ: "=", lexer.ItemNot: "not", lexer.ItemAnd: "and", lexer.ItemOr: "or",
	lexer.ItemShow: "show", lexer.ItemGraphs: "graphs", lexer.ItemOptional: "optional", lexer.ItemFilter: "filter",
}

// AllKinds lists every token kind except ItemError and ItemEOF.
func AllKinds() []lexer.TokenType {
	var res []lexer.TokenType
	for k := lexer.ItemQuery; k <= lexer.ItemFilterFunction; k++ {
		res = append(res, k)
	}
	return res
}

// Chooser picks sample texts for value-carrying tokens. A nil *rand.Rand gives
// the fixed first sample.
type Chooser struct {
	Rng      *rand.Rand
	Bindings []string
	Nodes    []string
	Preds    []string
	Bounds   []string
	Lits     []string
	Blank    []string
	Times    []string
	Filters  []string
}

// DefaultChooser uses boring samples.
func DefaultChooser(rng *rand.Rand) *Chooser {
	return &Chooser{
		Rng:      rng,
		Bindings: []string{"?a", "?b", "?c", "?g"},
		Nodes:    []string{"/u<a>", "/t<b>"},
		Preds:    []string{`"p"@[]`, `"q"@[2016-01-01T00:00:00Z]`, `"p"@[?t]`},
		Bounds:   []string{`"p"@[2015-01-01T00:00:00Z,2017-01-01T00:00:00Z]`, `"q"@[,]`, `"p"@[?a,?b]`, `"q"@[?c,]`},
		Lits:     []string{`"5"^^type:int64`, `"abc"^^type:text`, `"true"^^type:bool`},
		Blank:    []string{"_:v1"},
		Times:    []string{"2016-01-01T00:00:00Z"},
		Filters:  []string{"latest", "isTemporal", "isImmutable"},
	}
}

func (c *Chooser) pick(xs []string) string {
	if c.Rng == nil || len(xs) == 1 {
		return xs[0]
	}
	return xs[c.Rng.Intn(len(xs))]
}

// Render turns token kinds into statement text, choosing context-dependent
// spellings for TIME, PREDICATE_BOUND and FILTER_FUNCTION tokens (the lexer
// only produces them in particular contexts).
func Render(kinds []lexer.TokenType, c *Chooser) string {
	if c == nil {
		c = DefaultChooser(nil)
	}
	var sb strings.Builder
	prev := lexer.ItemError
	for i, k := range kinds {
		if i > 0 && !(k == lexer.ItemLPar && prev == lexer.ItemFilterFunction) {
			// the lexer wants the filter function name directly followed by "("
			sb.WriteByte(' ')
		}
		switch k {
		case lexer.ItemBinding:
			sb.WriteString(c.pick(c.Bindings))
		case lexer.ItemNode:
			sb.WriteString(c.pick(c.Nodes))
		case lexer.ItemBlankNode:
			sb.WriteString(c.pick(c.Blank))
		case lexer.ItemLiteral:
			sb.WriteString(c.pick(c.Lits))
		case lexer.ItemPredicate:
			sb.WriteString(c.pick(c.Preds))
		case lexer.ItemPredicateBound:
			if prev == lexer.ItemBetween || prev == lexer.ItemBefore || prev == lexer.ItemAfter {
				sb.WriteString("2015-01-01T00:00:00Z,2017-01-01T00:00:00Z")
			} else {
				sb.WriteString(c.pick(c.Bounds))
			}
		case lexer.ItemTime:
			sb.WriteString(c.pick(c.Times))
		case lexer.ItemFilterFunction:
			sb.WriteString(c.pick(c.Filters))
		case lexer.ItemEOF, lexer.ItemError:
			// nothing
		default:
			sb.WriteString(keywordText[k])
		}
		prev = k
	}
	return sb.String()
}

// Lex runs the real lexer to completion. ok is false if the channel was not
// closed within the watchdog.
func Lex(text string, capacity int) (toks []lexer.Token, ok bool) {
	ch := lexer.New(text, capacity)
	timer := time.NewTimer(20 * time.Second)
	defer timer.Stop()
	for {
		select {
		case t, more := <-ch:
			if !more {
				return toks, true
			}
			toks = append(toks, t)
			if len(toks) > 4*len(text)+16 {
				return toks, false
			}
		case <-timer.C:
			return toks, false
		}
	}
}

// Kinds projects tokens on their kinds.
func Kinds(toks []lexer.Token) []lexer.TokenType {
	res := make([]lexer.TokenType, len(toks))
	for i, t := range toks {
		res[i] = t.Type
	}
	return res
}

// KindsString renders kinds compactly.
func KindsString(ks []lexer.TokenType) string {
	parts := make([]string, len(ks))
	for i, k := range ks {
		parts[i] = k.String()
	}
	return strings.Join(parts, " ")
}

// SameKinds compares a lexed kind sequence (ending in EOF) with intended kinds.
func SameKinds(lexed []lexer.TokenType, want []lexer.TokenType) bool {
	if len(lexed) != len(want)+1 || lexed[len(lexed)-1] != lexer.ItemEOF {
		return false
	}
	for i := range want {
		if lexed[i] != want[i] {
			return false
		}
	}
	return true
}

// Sym converts a rule name.
func Sym(s string) semantic.Symbol { return semantic.Symbol(s) }
